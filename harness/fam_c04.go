package main

import (
	"context"
	"errors"
	"fmt"
	"io"
	"os"
	"path/filepath"
	"sort"
	"strings"

	blocks "github.com/ipfs/go-block-format"
	"github.com/ipfs/go-cid"
	format "github.com/ipfs/go-ipld-format"
	carv2 "github.com/ipld/go-car/v2"
	"github.com/ipld/go-car/v2/blockstore"
	"github.com/ipld/go-car/v2/index"
	"github.com/ipld/go-car/v2/storage"
	"github.com/multiformats/go-multicodec"
	mh "github.com/multiformats/go-multihash"
)

type wOpts struct {
	dp, ip                  uint64
	codec                   string
	v1, sid, dup, whole, z  bool
	mcs                     uint64
	ms, mh                  uint64 // read-side limits (0 = not set: library defaults)
}

func (o wOpts) String() string {
	s := fmt.Sprintf("dp=%d ip=%d codec=%s v1=%d sid=%d dup=%d whole=%d mcs=%d z=%d", o.dp, o.ip, o.codec,
		b2i(o.v1), b2i(o.sid), b2i(o.dup), b2i(o.whole), o.mcs, b2i(o.z))
	if o.ms != 0 {
		s += fmt.Sprintf(" ms=%d", o.ms)
	}
	if o.mh != 0 {
		s += fmt.Sprintf(" mh=%d", o.mh)
	}
	return s
}

func (o wOpts) opts() []carv2.Option {
	out := []carv2.Option{carv2.UseDataPadding(o.dp), carv2.UseIndexPadding(o.ip), carv2.WriteAsCarV1(o.v1),
		carv2.StoreIdentityCIDs(o.sid), carv2.AllowDuplicatePuts(o.dup), carv2.UseWholeCIDs(o.whole),
		carv2.MaxIndexCidSize(o.mcs), carv2.ZeroLengthSectionAsEOF(o.z)}
	if o.ms != 0 {
		out = append(out, carv2.MaxAllowedSectionSize(o.ms))
	}
	if o.mh != 0 {
		out = append(out, carv2.MaxAllowedHeaderSize(o.mh))
	}
	switch o.codec {
	case "sorted":
		out = append(out, carv2.UseIndexCodec(multicodec.CarIndexSorted))
	case "mh":
		out = append(out, carv2.UseIndexCodec(multicodec.CarMultihashIndexSorted))
	}
	return out
}

func (g *Gen) wOpts() wOpts {
	o := wOpts{codec: []string{"mh", "mh", "sorted"}[g.pick(3)], mcs: 2048}
	o.dp = []uint64{0, 0, 0, 1, 13, 100, 100, 4097, 9000}[g.pick(9)]
	o.ip = []uint64{0, 0, 0, 3, 64, 64, 4097}[g.pick(7)]
	o.v1 = g.pick(4) == 0
	o.sid = g.pick(2) == 0
	o.dup = g.pick(3) == 0
	o.whole = g.pick(3) == 0
	if g.pick(4) == 0 {
		o.mcs = uint64(36 + g.pick(30))
	}
	o.z = g.pick(5) == 0 // ZeroLengthSectionAsEOF: changes where a resumed scan stops
	return o
}

func classifyStore(err error) string {
	if err == nil {
		return "ok"
	}
	msg := err.Error()
	var tl *carv2.ErrCidTooLarge
	var nf format.ErrNotFound
	var snf storage.ErrNotFound
	switch {
	case errors.As(err, &tl):
		return "cidtoolarge"
	case errors.As(err, &nf), errors.As(err, &snf), errors.Is(err, index.ErrNotFound):
		return "notfound"
	case errors.Is(err, storage.ErrClosed), strings.Contains(msg, "after closing"), strings.Contains(msg, "on a closed"):
		return "closed"
	case strings.Contains(msg, "after finalize"), strings.Contains(msg, "already finalized"):
		return "finalized"
	case strings.Contains(msg, "file already closed"), strings.Contains(msg, "called Close without FinalizeReadOnly"):
		return "other"
	}
	return classify(err)
}

// store abstracts over blockstore.ReadWrite and storage.StorageCar for the op scripts.
type store interface {
	do(op string, c cid.Cid, d []byte, many []Blk) string
	fileBytes() []byte
	reopen(o wOpts, roots []cid.Cid) error
	cleanup()
}

func (s *bsStore) reopen(o wOpts, roots []cid.Cid) error {
	rw, err := blockstore.OpenReadWrite(s.path, roots, o.opts()...)
	if err != nil {
		return err
	}
	s.rw = rw
	return nil
}

func (s *stStore) reopen(o wOpts, roots []cid.Cid) error {
	sc, err := storage.OpenReadableWritable(s.mf, roots, o.opts()...)
	if err != nil {
		return err
	}
	s.sc = sc
	return nil
}

type bsStore struct {
	rw   *blockstore.ReadWrite
	path string
	own  *os.File // set when the store was opened on a caller-owned file
}

func sortedCidsStr(cs []cid.Cid) string {
	if len(cs) == 0 {
		return "-"
	}
	s := make([]string, len(cs))
	for i, c := range cs {
		s[i] = fmt.Sprintf("%x", c.Bytes())
	}
	sort.Strings(s)
	return strings.Join(s, ",")
}

func (s *bsStore) do(op string, c cid.Cid, d []byte, many []Blk) string {
	ctx := context.Background()
	switch op {
	case "put":
		b, _ := blocks.NewBlockWithCid(d, c)
		return classifyStore(s.rw.Put(ctx, b))
	case "many":
		var bl []blocks.Block
		for _, m := range many {
			b, _ := blocks.NewBlockWithCid(m.D, m.C)
			bl = append(bl, b)
		}
		return classifyStore(s.rw.PutMany(ctx, bl))
	case "has":
		h, err := s.rw.Has(ctx, c)
		if err != nil {
			return classifyStore(err)
		}
		return fmt.Sprint(h)
	case "get":
		b, err := s.rw.Get(ctx, c)
		if err != nil {
			return classifyStore(err)
		}
		if !b.Cid().Equals(c) {
			return "wrong-cid"
		}
		return "d:" + hexOr(b.RawData())
	case "size":
		n, err := s.rw.GetSize(ctx, c)
		if err != nil {
			return classifyStore(err)
		}
		return fmt.Sprintf("n:%d", n)
	case "keys":
		ch, err := s.rw.AllKeysChan(ctx)
		if err != nil {
			return classifyStore(err)
		}
		var cs []cid.Cid
		for k := range ch {
			cs = append(cs, k)
		}
		return "c:" + sortedCidsStr(cs)
	case "roots":
		r, err := s.rw.Roots()
		if err != nil {
			return classifyStore(err)
		}
		return "l:" + cidsStr(r)
	case "finalize":
		return classifyStore(s.rw.Finalize())
	case "finro":
		return classifyStore(s.rw.FinalizeReadOnly())
	case "close":
		return classifyStore(s.rw.Close())
	case "discard":
		s.rw.Discard()
		return "ok"
	}
	panic(op)
}

func (s *bsStore) fileBytes() []byte {
	b, err := os.ReadFile(s.path)
	if err != nil {
		panic(err)
	}
	return b
}

func (s *bsStore) cleanup() {
	s.rw.Discard()
	if s.own != nil {
		s.own.Close()
	}
	os.Remove(s.path)
}

type stStore struct {
	sc *storage.StorageCar
	mf *memFile
}

func (s *stStore) do(op string, c cid.Cid, d []byte, many []Blk) string {
	ctx := context.Background()
	key := string(c.Bytes())
	switch op {
	case "put":
		return classifyStore(s.sc.Put(ctx, key, d))
	case "has":
		h, err := s.sc.Has(ctx, key)
		if err != nil {
			return classifyStore(err)
		}
		return fmt.Sprint(h)
	case "get":
		b, err := s.sc.Get(ctx, key)
		if err != nil {
			return classifyStore(err)
		}
		// GetStream must agree with Get
		rc, err2 := s.sc.GetStream(ctx, key)
		if err2 != nil {
			return "getstream-disagrees"
		}
		b2, _ := io.ReadAll(rc)
		if string(b2) != string(b) {
			return "getstream-disagrees"
		}
		return "d:" + hexOr(b)
	case "roots":
		return "l:" + cidsStr(s.sc.Roots())
	case "finalize":
		return classifyStore(s.sc.Finalize())
	}
	return "other"
}

func (s *stStore) fileBytes() []byte { return append([]byte{}, s.mf.b...) }
func (s *stStore) cleanup()          {}

var workDir string

func tmpPath(name string) string {
	if workDir == "" {
		d, err := os.MkdirTemp("", "vharness")
		if err != nil {
			panic(err)
		}
		workDir = d
	}
	return filepath.Join(workDir, name)
}

func openStore(api string, o wOpts, roots []cid.Cid, seq int) (store, error) {
	if api == "bs" {
		p := tmpPath(fmt.Sprintf("rw-%d.car", seq))
		os.Remove(p)
		if seq%3 == 0 {
			// the caller-owned-file constructor: same store, the file's lifetime is the caller's
			f, err := os.OpenFile(p, os.O_RDWR|os.O_CREATE, 0o666)
			if err != nil {
				return nil, err
			}
			rw, err := blockstore.OpenReadWriteFile(f, roots, o.opts()...)
			if err != nil {
				f.Close()
				return nil, err
			}
			return &bsStore{rw, p, f}, nil
		}
		rw, err := blockstore.OpenReadWrite(p, roots, o.opts()...)
		if err != nil {
			return nil, err
		}
		return &bsStore{rw, p, nil}, nil
	}
	mf := &memFile{}
	sc, err := storage.NewReadableWritable(mf, roots, o.opts()...)
	if err != nil {
		return nil, err
	}
	return &stStore{sc, mf}, nil
}

// opAlphabet: the small block alphabet the property names.
func (g *Gen) opAlphabet(o wOpts) []Blk {
	d0 := g.bytes(1 + g.pick(40))
	h0, _ := mh.Sum(d0, mh.SHA2_256, -1)
	b0 := Blk{cid.NewCidV1(cid.Raw, h0), d0}
	b1 := Blk{cid.NewCidV1(cid.DagCBOR, h0), d0} // equal multihash, different codec
	d2 := g.bytes(g.pick(20))
	h2, _ := mh.Sum(d2, mh.IDENTITY, -1)
	b2 := Blk{cid.NewCidV1(cid.Raw, h2), d2} // identity
	d3 := g.bytes(1 + g.pick(60))
	h3, _ := mh.Sum(d3, mh.SHA2_256, -1)
	dec3, _ := mh.Decode(h3)
	ih3, _ := mh.Sum(dec3.Digest, mh.IDENTITY, -1)
	b3 := Blk{cid.NewCidV1(cid.Raw, h3), d3}
	b3i := Blk{cid.NewCidV1(cid.Raw, ih3), dec3.Digest} // equal digest, different hash code
	bigLen := o.mcs
	if bigLen > 2048 {
		bigLen = 2048 // a limit no CID of this alphabet exceeds
	}
	big := g.bytes(int(bigLen) + 1 + g.pick(20))
	hb, _ := mh.Sum(big, mh.IDENTITY, -1)
	b4 := Blk{cid.NewCidV1(cid.Raw, hb), big} // over-long CID
	b5 := g.Block()
	d6 := g.bytes(g.pick(30))
	h6, _ := mh.Sum(d6, mh.SHA2_256, -1)
	b6 := Blk{cid.NewCidV0(h6), d6}
	b7 := Blk{b0.C, append([]byte{0xff}, d0...)} // forged: same CID, other bytes (writers do not verify)
	s512, _ := mh.Sum(d3, mh.SHA2_512, -1)
	b8 := Blk{cid.NewCidV1(cid.DagProtobuf, s512), d3}
	return []Blk{b0, b1, b2, b3, b3i, b4, b5, b6, b7, b8}
}

var opNames = []string{"put", "put", "put", "put", "many", "has", "has", "get", "get", "size", "keys", "roots", "file",
	"finalize", "finro", "close", "discard"}

func runOps(g *Gen, o *Out, api string, wo wOpts, roots []cid.Cid, alpha []Blk, ops []string, seq int) {
	st, err := openStore(api, wo, roots, seq)
	o.Line(fmt.Sprintf("open api=%s %s roots=%s", api, wo, rootsArg(roots)), "r="+classifyStore(err))
	if err != nil {
		return
	}
	defer st.cleanup()
	ended := false
	for _, op := range ops {
		b := alpha[g.pick(len(alpha))]
		if bs, ok := st.(*bsStore); ok && bs.own != nil {
			// on a caller-owned file Roots keeps answering after the store has ended (the file is still
			// open); the model describes the path constructor, so that one question is not asked there
			if op == "roots" && ended {
				continue
			}
			if op == "finalize" || op == "close" || op == "discard" || op == "finro" {
				ended = true
			}
		}
		switch op {
		case "put":
			o.Line(fmt.Sprintf("put c=%x d=%s", b.C.Bytes(), hexOr(b.D)), "r="+st.do("put", b.C, b.D, nil))
		case "many":
			if api != "bs" {
				continue
			}
			var many []Blk
			for i := 0; i < 1+g.pick(3); i++ {
				many = append(many, alpha[g.pick(len(alpha))])
			}
			o.Line("many b="+blocksStr(many), "r="+st.do("many", cid.Undef, nil, many))
		case "has", "get", "size":
			if api != "bs" && op == "size" {
				continue
			}
			c := b.C
			if g.pick(8) == 0 {
				c = g.Block().C // absent
			}
			line := fmt.Sprintf("%s c=%x", op, c.Bytes())
			if op == "get" && wo.ms != 0 {
				line += fmt.Sprintf(" ms=%d", wo.ms) // the session's read-side limit, for the finding's label
			}
			o.Line(line, "r="+st.do(op, c, nil, nil))
		case "file":
			o.Line("file", fmt.Sprintf("file=%x", st.fileBytes()))
		case "keys", "finro", "close", "discard":
			if api != "bs" {
				continue
			}
			o.Line(op, "r="+st.do(op, cid.Undef, nil, nil))
		default:
			o.Line(op, "r="+st.do(op, cid.Undef, nil, nil))
		}
		o.Count(api + "/" + op)
	}
}

// typestateSessions: every ordered pair of ending operations (FinalizeReadOnly, Finalize, Close,
// Discard), each followed by every kind of lookup and write — the state a store is left in after an
// ending call, after a second one, and after one that was refused.
func typestateSessions(g *Gen, o *Out, seq *int) {
	ends := []string{"finro", "finalize", "close", "discard"}
	probe := []string{"has", "get", "size", "keys", "roots", "put", "many"}
	for _, v1 := range []bool{false, true} {
		for _, t1 := range ends {
			for _, t2 := range ends {
				for _, api := range []string{"bs", "st"} {
					wo := g.wOpts()
					wo.v1 = v1
					alpha := g.opAlphabet(wo)
					for _, b := range alpha {
						o.Hash(b.C.Prefix().MhType, b.D)
					}
					ops := []string{"put", "put", t1}
					ops = append(ops, probe...)
					ops = append(ops, t2)
					ops = append(ops, probe...)
					ops = append(ops, t1, "has", "put", "file")
					*seq++
					runOps(g, o, api, wo, g.Roots(alpha[:3]), alpha, ops, *seq)
				}
			}
		}
	}
}

func famC04(g *Gen, o *Out, n int, thorough bool) {
	seq := 0
	typestateSessions(g, o, &seq)
	for c := 0; c < n; c++ {
		wo := g.wOpts()
		if g.pick(8) == 0 {
			// a small read-side section limit on a writing session (recorded finding: Put does not
			// apply it, Get does)
			wo.ms = uint64(40 + g.pick(120))
		}
		if c%5 == 3 {
			// the CID size limit at the edges of the integer types it passes through ("no limit" is
			// commonly spelled MaxUint64)
			wo.mcs = []uint64{1 << 31, 1 << 32, 1<<63 - 1, 1 << 63, 1<<64 - 1}[(c/5)%5]
		}
		api := []string{"bs", "st"}[g.pick(2)]
		alpha := g.opAlphabet(wo)
		for _, b := range alpha {
			o.Hash(b.C.Prefix().MhType, b.D)
		}
		roots := g.Roots(alpha[:3])
		nops := 4 + g.pick(14)
		if thorough {
			nops = 6 + g.pick(30)
		}
		ops := make([]string, nops)
		for i := range ops {
			ops[i] = opNames[g.pick(len(opNames))]
			// keep terminal ops rare early on
			if i < nops/2 && (ops[i] == "finalize" || ops[i] == "close" || ops[i] == "discard" || ops[i] == "finro") && g.pick(3) != 0 {
				ops[i] = "put"
			}
		}
		ops = append(ops, "file")
		seq++
		runOps(g, o, api, wo, roots, alpha, ops, seq)
	}
	if workDir != "" {
		os.RemoveAll(workDir)
	}
}
