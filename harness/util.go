package main

import (
	"bufio"
	"encoding/hex"
	"errors"
	"fmt"
	"io"
	"math/rand"
	"os"
	"sort"
	"strings"

	"github.com/ipfs/go-cid"
	mh "github.com/multiformats/go-multihash"
	"github.com/multiformats/go-varint"
)

// ---------- canonical printing (must match CarModel/Driver/Util.lean) ----------

func hexOr(b []byte) string {
	if len(b) == 0 {
		return "-"
	}
	return hex.EncodeToString(b)
}

func cidsStr(cs []cid.Cid) string {
	if len(cs) == 0 {
		return "-"
	}
	s := make([]string, len(cs))
	for i, c := range cs {
		s[i] = hex.EncodeToString(c.Bytes())
	}
	return strings.Join(s, ",")
}

// rootsArg prints a root list for the script: nil slice, empty slice or CIDs.
func rootsArg(cs []cid.Cid) string {
	if cs == nil {
		return "nil"
	}
	return cidsStr(cs)
}

type Blk struct {
	C cid.Cid
	D []byte
}

func blocksStr(bs []Blk) string {
	if len(bs) == 0 {
		return "-"
	}
	s := make([]string, len(bs))
	for i, b := range bs {
		s[i] = hex.EncodeToString(b.C.Bytes()) + ":" + hexOr(b.D)
	}
	return strings.Join(s, ";")
}

// classify maps an error to the small enum shared with the model (DESIGN 3.2).
func classify(err error) string {
	if err == nil {
		return "ok"
	}
	if err == io.EOF {
		return "eof"
	}
	if err == io.ErrUnexpectedEOF {
		return "ueof"
	}
	msg := err.Error()
	var ic cid.ErrInvalidCid
	switch {
	case strings.Contains(msg, "mismatch in content integrity"):
		return "mismatch"
	case (errors.Is(err, varint.ErrOverflow) || errors.Is(err, varint.ErrNotMinimal)) && !errors.As(err, &ic):
		return "badvarint"
	case errors.As(err, &ic):
		return "badcid"
	case strings.Contains(msg, "invalid section data, length of read beyond allowable maximum"),
		strings.Contains(msg, "header is bigger than util.MaxAllowedSectionSize"):
		return "toolarge"
	case strings.Contains(msg, "invalid header data, length of read beyond allowable maximum"):
		return "hdrtoolarge"
	case strings.Contains(msg, "invalid car version"), strings.Contains(msg, "invalid data payload header version"),
		strings.Contains(msg, "expected either version"), strings.Contains(msg, "unsupported car version"),
		strings.Contains(msg, "unsupported CAR version"), strings.Contains(msg, "expected data payload header version"):
		return "badversion"
	case strings.Contains(msg, "empty car, no roots"):
		return "noroots"
	case strings.Contains(msg, "invalid data payload offset"), strings.Contains(msg, "invalid data payload size"),
		strings.Contains(msg, "invalid index offset"):
		return "badheader"
	case strings.Contains(msg, "invalid header:"):
		return "badheader"
	case errors.Is(err, io.ErrUnexpectedEOF):
		return "ueof"
	case errors.Is(err, io.EOF):
		return "eof-wrapped"
	}
	return "other"
}

// ---------- deterministic generation ----------

type Gen struct{ *rand.Rand }

func newGen(seed int64) *Gen { return &Gen{rand.New(rand.NewSource(seed))} }

func (g *Gen) pick(n int) int { return g.Intn(n) }

func (g *Gen) bytes(n int) []byte {
	b := make([]byte, n)
	g.Read(b)
	return b
}

var dataLens = []int{0, 0, 1, 1, 2, 3, 5, 8, 13, 31, 32, 33, 60, 89, 90, 91, 92, 93, 100, 127, 128, 129, 200}

type hashChoice struct {
	code uint64
	len  int
}

var hashAlphabet = []hashChoice{
	{mh.SHA2_256, -1}, {mh.SHA2_256, -1}, {mh.SHA2_256, -1}, {mh.SHA2_256, -1}, {mh.SHA2_256, -1}, {mh.SHA2_256, -1},
	{mh.IDENTITY, -1}, {mh.IDENTITY, -1},
	{mh.SHA2_256, 20}, {mh.SHA2_256, 17},
	{mh.SHA2_512, -1}, {mh.SHA3_256, -1}, {mh.BLAKE2B_MIN + 31, -1}, {mh.DBL_SHA2_256, -1}, {mh.SHA1, -1},
}

var codecAlphabet = []uint64{cid.Raw, cid.Raw, cid.DagProtobuf, cid.DagCBOR, 0x0129, 0x7fffffffffffffff, 0x80}

// Block makes an honest block (digest = hash of data) over the property's alphabet.
func (g *Gen) Block() Blk {
	n := dataLens[g.pick(len(dataLens))]
	if g.pick(40) == 0 {
		n = 16300 + g.pick(200)
		if g.pick(2) == 0 {
			// section length (CID + data) right at the 2-byte/3-byte varint boundary, for the usual CID lengths
			n = 16384 - []int{36, 34, 36, 68}[g.pick(4)] - 2 + g.pick(4)
		}
	}
	return g.BlockWith(g.bytes(n))
}

func (g *Gen) BlockWith(d []byte) Blk {
	hc := hashAlphabet[g.pick(len(hashAlphabet))]
	if hc.code == mh.IDENTITY && len(d) > 120 {
		hc = hashChoice{mh.SHA2_256, -1}
	}
	h, err := mh.Sum(d, hc.code, hc.len)
	if err != nil {
		panic(err)
	}
	if hc.code == mh.SHA2_256 && hc.len == -1 && g.pick(6) == 0 {
		return Blk{cid.NewCidV0(h), d}
	}
	return Blk{cid.NewCidV1(codecAlphabet[g.pick(len(codecAlphabet))], h), d}
}

// Blocks makes a block list with deliberate repeats: same block, same multihash/other codec,
// and the pair sha2-256(d) / identity(sha256(d)) (equal digest, different hash code).
func (g *Gen) Blocks(max int) []Blk {
	n := g.pick(max + 1)
	var out []Blk
	for len(out) < n {
		switch k := g.pick(12); {
		case k == 0 && len(out) > 0:
			out = append(out, out[g.pick(len(out))])
		case k == 1 && len(out) > 0:
			b := out[g.pick(len(out))]
			if b.C.Version() == 1 {
				out = append(out, Blk{cid.NewCidV1(codecAlphabet[g.pick(len(codecAlphabet))], b.C.Hash()), b.D})
			} else {
				out = append(out, Blk{cid.NewCidV1(cid.Raw, b.C.Hash()), b.D})
			}
		case k == 2:
			d := g.bytes(dataLens[g.pick(len(dataLens))])
			h, _ := mh.Sum(d, mh.SHA2_256, -1)
			dec, _ := mh.Decode(h)
			ih, _ := mh.Sum(dec.Digest, mh.IDENTITY, -1)
			out = append(out, Blk{cid.NewCidV1(cid.Raw, h), d}, Blk{cid.NewCidV1(cid.Raw, ih), dec.Digest})
		case k == 4 && g.pick(3) == 0:
			// the empty identity CID (bafkqaaa): zero-length digest, zero-length block
			ih, _ := mh.Sum(nil, mh.IDENTITY, -1)
			out = append(out, Blk{cid.NewCidV1(cid.Raw, ih), []byte{}})
		case k == 5 && g.pick(2) == 0:
			// identity blocks of one length sharing a long prefix: near-twin digests in one index bucket
			pre := g.bytes(9 + g.pick(20))
			for t := 0; t < 2+g.pick(2); t++ {
				d := append(append([]byte{}, pre...), byte(t), byte(g.pick(256)))
				ih, _ := mh.Sum(d, mh.IDENTITY, -1)
				out = append(out, Blk{cid.NewCidV1(cid.Raw, ih), d})
			}
		case k == 3 && g.pick(2) == 0:
			// a long CID: identity multihash with a digest past the sizes parsers like to assume (128, 256)
			d := g.bytes([]int{125, 127, 128, 129, 200, 255, 256, 300}[g.pick(8)])
			ih, _ := mh.Sum(d, mh.IDENTITY, -1)
			out = append(out, Blk{cid.NewCidV1(cid.Raw, ih), d})
		default:
			out = append(out, g.Block())
		}
	}
	return out
}

// EdgeBlocks: one block of every special shape the generators know, in a fixed order — the
// deterministic corpus each family runs first, so that catching a change that needs one of these
// shapes does not depend on the seed.
func (g *Gen) EdgeBlocks() []Blk {
	mk := func(codec uint64, code uint64, d []byte) Blk {
		h, _ := mh.Sum(d, code, -1)
		return Blk{cid.NewCidV1(codec, h), d}
	}
	d := g.bytes(9)
	sh, _ := mh.Sum(d, mh.SHA2_256, -1)
	dec, _ := mh.Decode(sh)
	pre := g.bytes(12)
	out := []Blk{
		mk(cid.Raw, mh.SHA2_256, g.bytes(7)),
		mk(cid.Raw, mh.IDENTITY, []byte{}),                            // the empty identity CID
		mk(cid.Raw, mh.SHA2_256, []byte{}),                            // an empty block
		mk(cid.Raw, mh.IDENTITY, g.bytes(5)),                          // a short identity block
		{cid.NewCidV1(cid.Raw, sh), d}, {cid.NewCidV1(cid.DagCBOR, sh), d}, // same multihash, two codecs
		mk(cid.Raw, mh.IDENTITY, dec.Digest),                          // identity CID whose digest is another block's sha2 digest
		mk(cid.Raw, mh.IDENTITY, append(append([]byte{}, pre...), 1, 7)), // identity near twins
		mk(cid.Raw, mh.IDENTITY, append(append([]byte{}, pre...), 2, 9)),
		mk(cid.DagProtobuf, mh.SHA2_512, g.bytes(3)),
		{cid.NewCidV0(sh), d}, // CIDv0 of the same multihash
		mk(cid.Raw, mh.SHA2_256, g.bytes(130)), // 2-byte length prefix
		mk(cid.Raw, mh.IDENTITY, g.bytes(80)),  // an identity CID longer than every hashed CID (84 bytes)
	}
	out = append(out, out[0]) // a repeated block
	return out
}

// Roots picks a root list: nil, empty, among the blocks, with duplicates, foreign.
func (g *Gen) Roots(bs []Blk) []cid.Cid {
	switch g.pick(8) {
	case 0:
		return nil
	case 1:
		return []cid.Cid{}
	}
	n := 1 + g.pick(3)
	var out []cid.Cid
	for i := 0; i < n; i++ {
		switch {
		case len(bs) > 0 && g.pick(4) != 0:
			out = append(out, bs[g.pick(len(bs))].C)
		case len(out) > 0 && g.pick(2) == 0:
			out = append(out, out[g.pick(len(out))])
		default:
			out = append(out, g.Block().C)
		}
	}
	if g.pick(30) == 0 {
		// a header with many roots (its length prefix is then two or three bytes long, its CBOR array head too)
		many := 24 + g.pick(300)
		for i := 0; i < many; i++ {
			if len(bs) > 0 && i%3 == 0 {
				out = append(out, bs[g.pick(len(bs))].C)
			} else {
				out = append(out, g.Block().C)
			}
		}
	}
	if g.pick(6) == 0 {
		// a root whose CID length sits on a CBOR head boundary of the header encoding (the byte
		// string holding a CID of 23 / 255 bytes is 24 / 256 long): identity CIDs of chosen length
		L := []int{22, 23, 24, 254, 255, 256}[g.pick(6)]
		dl := L - 4
		if dl >= 128 {
			dl = L - 5
		}
		ih, _ := mh.Sum(g.bytes(dl), mh.IDENTITY, -1)
		out = append(out, cid.NewCidV1(cid.Raw, ih))
	}
	return out
}

// ---------- output ----------

type Out struct {
	script, impl *bufio.Writer
	fs, fi       *os.File
	lines        int
	hashed       map[string]bool
	stats        map[string]int
}

func newOut(dir string) *Out {
	fs, err := os.Create(dir + "/script.txt")
	if err != nil {
		panic(err)
	}
	fi, err := os.Create(dir + "/impl.txt")
	if err != nil {
		panic(err)
	}
	return &Out{script: bufio.NewWriterSize(fs, 1<<20), impl: bufio.NewWriterSize(fi, 1<<20), fs: fs, fi: fi,
		hashed: map[string]bool{}, stats: map[string]int{}}
}

func (o *Out) Line(script, impl string) {
	progress.Add(1)
	fmt.Fprintln(o.script, script)
	fmt.Fprintln(o.impl, "I "+impl)
	o.lines++
}

func (o *Out) Count(k string) { progress.Add(1); o.stats[k]++ }

// Hash tells the model the digest of (code, data) for hash functions the driver does not implement.
func (o *Out) Hash(code uint64, data []byte) {
	if code == mh.IDENTITY || code == mh.SHA2_256 || code == mh.DBL_SHA2_256 {
		return
	}
	key := fmt.Sprintf("%d/%x", code, data)
	if o.hashed[key] {
		return
	}
	if len(data) > 0 {
		o.Hash(code, nil) // the model asks "is this function registered, how long is its output" at the empty input
	}
	h, err := mh.Sum(data, code, -1)
	if err != nil {
		return // unknown function: the model answers "none" too
	}
	dec, err := mh.Decode(h)
	if err != nil {
		return
	}
	o.hashed[key] = true
	o.Line(fmt.Sprintf("hash code=%d data=%s digest=%s", code, hexOr(data), hexOr(dec.Digest)), "skip")
}

func (o *Out) HashBlocks(bs []Blk) {
	for _, b := range bs {
		o.Hash(b.C.Prefix().MhType, b.D)
	}
}

func (o *Out) Close() {
	o.script.Flush()
	o.impl.Flush()
	o.fs.Close()
	o.fi.Close()
}

func (o *Out) StatsJSON() string {
	keys := make([]string, 0, len(o.stats))
	for k := range o.stats {
		keys = append(keys, k)
	}
	sort.Strings(keys)
	parts := make([]string, len(keys))
	for i, k := range keys {
		parts[i] = fmt.Sprintf("%q:%d", k, o.stats[k])
	}
	return "{" + strings.Join(parts, ",") + "}"
}

// sound reports whether every block hashes to its CID, using go-cid/go-multihash only.
func sound(bs []Blk) bool {
	for _, b := range bs {
		c, err := b.C.Prefix().Sum(b.D)
		if err != nil || !c.Equals(b.C) {
			return false
		}
	}
	return true
}

func b2i(b bool) int {
	if b {
		return 1
	}
	return 0
}

// plainReader hides Seek/ReadAt/ReadByte so that go-car sees a bare io.Reader.
type plainReader struct{ r io.Reader }

// Read delivers like a pipe or a socket does: mostly what is asked, every third call at most half of it,
// now and then a single byte (short reads are within io.Reader's contract; for the models a plain
// stream is its byte sequence).
func (p *plainReader) Read(b []byte) (int, error) {
	plainCalls++
	switch {
	case len(b) > 1 && plainCalls%7 == 3:
		b = b[:1]
	case len(b) > 1 && plainCalls%3 == 1:
		b = b[:(len(b)+1)/2]
	}
	return p.r.Read(b)
}

var plainCalls int
