package main

import (
	"bufio"
	"bytes"
	"encoding/hex"
	"errors"
	"fmt"
	"io"
	"sort"
	"strings"

	"github.com/ipfs/go-cid"
	carv2 "github.com/ipld/go-car/v2"
	"github.com/ipld/go-car/v2/index"
	"github.com/multiformats/go-multicodec"
	mh "github.com/multiformats/go-multihash"
)

type idxOpts struct {
	zeroEOF, sid bool
	mcs, mh      uint64
}

func (o idxOpts) String() string {
	return fmt.Sprintf("z=%d sid=%d mcs=%d mh=%d", b2i(o.zeroEOF), b2i(o.sid), o.mcs, o.mh)
}

func (o idxOpts) opts() []carv2.Option {
	return []carv2.Option{carv2.ZeroLengthSectionAsEOF(o.zeroEOF), carv2.StoreIdentityCIDs(o.sid),
		carv2.MaxIndexCidSize(o.mcs), carv2.MaxAllowedHeaderSize(o.mh)}
}

func classifyIdx(err error) string {
	var tl *carv2.ErrCidTooLarge
	if errors.As(err, &tl) {
		return "cidtoolarge"
	}
	if err != nil && strings.Contains(err.Error(), "null padding not allowed") {
		return "zerosection"
	}
	if errors.Is(err, index.ErrNotFound) {
		return "notfound"
	}
	if c := classify(err); c != "eof-wrapped" {
		return c
	}
	return "eof"
}

func offsStr(o []uint64) string {
	if len(o) == 0 {
		return "-"
	}
	sort.Slice(o, func(i, j int) bool { return o[i] < o[j] })
	s := make([]string, len(o))
	for i, v := range o {
		s[i] = fmt.Sprint(v)
	}
	return strings.Join(s, ".")
}

// queryIndex runs GetAll for every query CID (and GetFirst ∈ GetAll), canonicalised.
func queryIndex(idx index.Index, qs []cid.Cid) string {
	parts := make([]string, len(qs))
	for i, q := range qs {
		var offs []uint64
		err := idx.GetAll(q, func(o uint64) bool { offs = append(offs, o); return true })
		if err != nil && !errors.Is(err, index.ErrNotFound) {
			parts[i] = "err:" + classifyIdx(err)
			continue
		}
		if (len(offs) == 0) != errors.Is(err, index.ErrNotFound) {
			parts[i] = "inconsistent-notfound"
			continue
		}
		first, ferr := index.GetFirst(idx, q)
		if len(offs) > 0 {
			ok := ferr == nil
			found := false
			for _, o := range offs {
				if o == first {
					found = true
				}
			}
			if !ok || !found {
				parts[i] = "bad-getfirst"
				continue
			}
		}
		parts[i] = offsStr(offs)
	}
	if len(parts) == 0 {
		return "-"
	}
	return strings.Join(parts, ",")
}

// eachIndex lists ForEach entries as code:digest:offset, sorted.
func eachIndex(idx index.Index) string {
	it, ok := idx.(index.IterableIndex)
	if !ok {
		return "na"
	}
	var es []string
	err := it.ForEach(func(m mh.Multihash, o uint64) error {
		d, err := mh.Decode(m)
		if err != nil {
			return err
		}
		es = append(es, fmt.Sprintf("%d:%s:%d", d.Code, hexOr(d.Digest), o))
		return nil
	})
	if err != nil {
		return "err:" + classifyIdx(err)
	}
	sort.Strings(es)
	if len(es) == 0 {
		return "-"
	}
	return strings.Join(es, ";")
}

func newIndex(codec string) index.Index {
	switch codec {
	case "sorted":
		i, _ := index.New(multicodec.CarIndexSorted)
		return i
	case "mh":
		i, _ := index.New(multicodec.CarMultihashIndexSorted)
		return i
	}
	return index.NewInsertionIndex()
}

// queries: every distinct CID of the archive, codec/hash-code variants of some, and absent ones.
func (g *Gen) queries(bs []Blk) []cid.Cid {
	seen := map[string]bool{}
	var qs []cid.Cid
	add := func(c cid.Cid) {
		if !seen[c.KeyString()] {
			seen[c.KeyString()] = true
			qs = append(qs, c)
		}
	}
	for _, b := range bs {
		add(b.C)
		if g.pick(3) == 0 {
			add(cid.NewCidV1(0x0129, b.C.Hash())) // same multihash, other codec
		}
		if g.pick(4) == 0 { // same digest, other hash code
			d, _ := mh.Decode(b.C.Hash())
			code := uint64(mh.SHA3_256)
			if d.Code == code {
				code = mh.SHA2_256
			}
			if m, err := mh.Encode(d.Digest, code); err == nil {
				add(cid.NewCidV1(cid.Raw, m))
			}
		}
	}
	for i := 0; i < 2; i++ {
		add(g.Block().C)
	}
	return qs
}

// longPayloadCases: one payload with more sections than any batch size, buffer or bucket threshold a
// generator might use (2048, 4096, 8192): every section must still be found at its own offset.
func longPayloadCases(g *Gen, o *Out, thorough bool) {
	counts := []int{2100 + g.pick(2500)}
	if thorough {
		counts = []int{2049, 4097, 8200 + g.pick(300)}
	}
	for _, nb := range counts {
		var bs []Blk
		for i := 0; i < nb; i++ {
			d := g.bytes(1 + g.pick(3))
			h, _ := mh.Sum(d, mh.SHA2_256, -1)
			if i%97 == 0 {
				h, _ = mh.Sum(d, mh.SHA2_512, -1) // a second bucket (other width)
			}
			bs = append(bs, Blk{cid.NewCidV1(cid.Raw, h), d})
		}
		o.HashBlocks(bs)
		r := []cid.Cid{bs[0].C}
		v1 := g.pick(2) == 0
		arch := writeAll(r, bs, v1)
		ver := 2
		if v1 {
			ver = 1
		}
		io_ := idxOpts{mcs: 2048, mh: 32 << 20}
		qs := []cid.Cid{bs[0].C, bs[1].C, bs[nb/2].C, bs[2047].C, bs[2048].C, bs[nb-1].C, bs[g.pick(nb)].C, g.Block().C}
		desc := fmt.Sprintf("%s roots=%s blocks=%s ver=%d dp=0 pad=0 arch=%s q=%s", io_, rootsArg(r), blocksStr(bs), ver,
			hex.EncodeToString(arch), cidsStr(qs))
		for _, kind := range []string{"seek", "plain"} {
			for _, codec := range []string{"sorted", "mh", "ins"} {
				var rd io.Reader = bytes.NewReader(arch)
				if kind == "plain" {
					rd = &plainReader{rd}
				}
				idx := newIndex(codec)
				err := carv2.LoadIndex(idx, rd, io_.opts()...)
				res := "open=" + classifyIdx(err)
				if err == nil {
					res += " get=" + queryIndex(idx, qs) + " each=" + eachIndex(idx)
				}
				o.Line(fmt.Sprintf("idx kind=%s codec=%s %s", kind, codec, desc), res)
				o.Count("idx/long/" + kind + "/" + codec)
			}
		}
	}
}

func famC03(g *Gen, o *Out, n int, thorough bool) {
	type heldIndex struct {
		line string
		idx  index.Index
		qs   []cid.Cid
	}
	var heldPrev, heldNow []heldIndex

	longPayloadCases(g, o, thorough)
	for c := 0; c < n; c++ {
		maxB := 6
		if thorough {
			maxB = 14
		}
		roots, bs, ver, dp, arch, _ := genArchive(g, maxB)
		io_ := idxOpts{mcs: 2048, mh: 32 << 20}
		if g.pick(2) == 0 {
			io_.sid = true
		}
		embSid := true // writeAll stores and indexes identity CIDs
		if c < 4 {
			// fixed corpus: the edge block list as CARv1 and as padded CARv2, identity CIDs indexed or not
			bs = g.EdgeBlocks()
			r := []cid.Cid{bs[0].C}
			roots = rootsArg(r)
			io_.sid = c%2 == 0
			if !io_.sid {
				// a CID-size limit between the longest hashed CID (68 bytes) and the long identity CID (84):
				// with identity CIDs left out of the index, the limit is not their business
				io_.mcs = 70
			}
			if c < 2 {
				ver, dp, arch = 1, 0, writeAll(r, bs, true)
			} else {
				ver, dp, embSid = 2, 13, true
				arch = writeAll(r, bs, false, carv2.UseDataPadding(dp), carv2.StoreIdentityCIDs(true))
			}
		}
		if g.pick(5) == 0 {
			io_.mcs = uint64(30 + g.pick(40))
		}
		src := arch
		if ver == 1 && g.pick(4) == 0 { // null padding after the payload
			io_.zeroEOF = g.pick(3) != 0
			src = append(append([]byte{}, arch...), make([]byte, 1+g.pick(5))...)
		}
		qs := g.queries(bs)
		desc := fmt.Sprintf("%s roots=%s blocks=%s ver=%d dp=%d pad=%d arch=%s q=%s", io_, roots, blocksStr(bs), ver, dp,
			len(src)-len(arch), hex.EncodeToString(src), cidsStr(qs))
		for _, rk := range []string{"seek", "plain", "bufio", "buffer"} {
			// bufio.Reader / bytes.Buffer: plain streams that ALSO offer ReadByte (what a pipe behind a
			// bufio.Reader looks like); for the model they are plain streams
			kind := rk
			if rk == "bufio" || rk == "buffer" {
				kind = "plain"
			}
			for _, codec := range []string{"sorted", "mh", "ins"} {
				var r io.Reader = bytes.NewReader(src)
				switch rk {
				case "plain":
					r = &plainReader{r}
				case "bufio":
					r = bufio.NewReaderSize(&plainReader{r}, 16+g.pick(64))
				case "buffer":
					r = bytes.NewBuffer(append([]byte{}, src...))
				}
				idx := newIndex(codec)
				err := carv2.LoadIndex(idx, r, io_.opts()...)
				res := "open=" + classifyIdx(err)
				if err == nil {
					res += " get=" + queryIndex(idx, qs) + " each=" + eachIndex(idx)
				}
				line := fmt.Sprintf("idx kind=%s codec=%s %s", kind, codec, desc)
				o.Line(line, res)
				o.Count("idx/" + rk + "/" + codec + "/v" + fmt.Sprint(ver))
				if err == nil && rk == "seek" {
					heldNow = append(heldNow, heldIndex{line, idx, qs})
				}
			}
		}
		// an index is a value: the indexes generated for the PREVIOUS archive must answer exactly as they
		// did, now that other indexes have been generated in the same process (no shared buffers)
		for _, h := range heldPrev {
			o.Line(h.line, "open=ok get="+queryIndex(h.idx, h.qs)+" each="+eachIndex(h.idx))
			o.Count("idx/requeried-after-later-generations")
		}
		heldPrev, heldNow = heldNow, nil
		// ReadOrGenerateIndex: generated for a CARv1 and an index-less CARv2 (under the caller's options),
		// read back verbatim for a CARv2 that carries one (whatever the caller asks for)
		for _, codec := range []string{"sorted", "mh"} {
			ropts := io_.opts()
			if codec == "sorted" {
				ropts = append(ropts, carv2.UseIndexCodec(multicodec.CarIndexSorted))
			}
			idx, err := carv2.ReadOrGenerateIndex(bytes.NewReader(src), ropts...)
			res := "open=" + classifyIdx(err)
			if err == nil {
				res += " get=" + queryIndex(idx, qs) + " each=" + eachIndex(idx)
			}
			ld, lc := desc, codec
			if ver == 2 {
				// the CARv2 carries its writer's index: multihash-sorted, identity CIDs as the writer chose
				emb := io_
				emb.sid, emb.mcs = embSid, 1<<20 // as the writer had them (writeAll)
				lc = "mh"
				ld = fmt.Sprintf("%s roots=%s blocks=%s ver=%d dp=%d pad=%d arch=%s q=%s", emb, roots, blocksStr(bs), ver, dp,
					len(src)-len(arch), hex.EncodeToString(src), cidsStr(qs))
			}
			o.Line(fmt.Sprintf("idx kind=rog req=%s codec=%s %s", codec, lc, ld), res)
			o.Count("idx/rog/" + codec + "/v" + fmt.Sprint(ver))
		}
		// the same payload as an index-less CARv2 (an index is then generated from the data window), through
		// a source that is a ReaderAt and through one that can only Read and Seek
		if ver == 2 && len(src) == len(arch) {
			il := indexlessV2(payloadOf(arch), int(dp))
			ild := fmt.Sprintf("%s roots=%s blocks=%s ver=2 dp=%d pad=0 arch=%s q=%s", io_, roots, blocksStr(bs), dp, hex.EncodeToString(il), cidsStr(qs))
			for _, sk := range []string{"readerat", "seekonly"} {
				codec := []string{"sorted", "mh"}[g.pick(2)]
				ropts := io_.opts()
				if codec == "sorted" {
					ropts = append(ropts, carv2.UseIndexCodec(multicodec.CarIndexSorted))
				}
				var rs io.ReadSeeker = bytes.NewReader(il)
				if sk == "seekonly" {
					rs = struct{ io.ReadSeeker }{rs}
				}
				idx, err := carv2.ReadOrGenerateIndex(rs, ropts...)
				res := "open=" + classifyIdx(err)
				if err == nil {
					res += " get=" + queryIndex(idx, qs) + " each=" + eachIndex(idx)
				}
				o.Line(fmt.Sprintf("idx kind=rog src=%s codec=%s %s", sk, codec, ild), res)
				o.Count("idx/rog-indexless/" + sk)
			}
		}
	}
}
