package main

import (
	"path/filepath"
	"io"
	"bytes"
	"encoding/hex"
	"fmt"
	"os"

	"github.com/ipfs/go-cid"
	carv2 "github.com/ipld/go-car/v2"
	"github.com/multiformats/go-multicodec"
	mh "github.com/multiformats/go-multihash"
)

// indexlessV2 lays a payload out as a CARv2 without index (IndexOffset = 0), independently of go-car.
func indexlessV2(payload []byte, dp int) []byte {
	var b bytes.Buffer
	b.Write(carv2.Pragma)
	le := func(x uint64) {
		for i := 0; i < 8; i++ {
			b.WriteByte(byte(x >> (8 * i)))
		}
	}
	le(0)
	le(0)
	le(uint64(51 + dp))
	le(uint64(len(payload)))
	le(0)
	b.Write(make([]byte, dp))
	b.Write(payload)
	return b.Bytes()
}

func famC10(g *Gen, o *Out, n int, thorough bool) {
	for c := 0; c < n; c++ {
		maxB := 5
		if thorough {
			maxB = 10
		}
		bs := g.Blocks(maxB)
		if c%4 == 1 || c%4 == 3 {
			// a valid CARv1 may carry an identity CID longer than the index's CID size limit: with
			// StoreIdentityCIDs off it is simply not indexed, and wrapping must still succeed
			d := make([]byte, 2100+c)
			for i := range d {
				d[i] = byte((i + c) % 251)
			}
			h, _ := mh.Sum(d, mh.IDENTITY, -1)
			at := len(bs) / 2
			bs = append(bs[:at:at], append([]Blk{{cid.NewCidV1(cid.Raw, h), d}}, bs[at:]...)...)
		}
		o.HashBlocks(bs)
		roots := g.Roots(bs)
		x := writeAll(roots, bs, true) // a valid CARv1
		// --- WrapV1
		codec := []string{"mh", "sorted"}[g.pick(2)]
		sid := g.pick(2) == 0
		mcs := []uint64{1 << 20, 2048, 1 << 20, 64}[c%4]
		wopts := []carv2.Option{carv2.StoreIdentityCIDs(sid), carv2.MaxIndexCidSize(mcs)}
		if codec == "sorted" {
			wopts = append(wopts, carv2.UseIndexCodec(multicodec.CarIndexSorted))
		}
		x0 := x // before any null padding: what the option-less file API gets
		z := 0
		if g.pick(3) == 0 { // a null-padded source, read with ZeroLengthSectionAsEOF
			x = append(append([]byte{}, x...), make([]byte, []int{1, 2, 5, 64}[g.pick(4)])...)
			wopts = append(wopts, carv2.ZeroLengthSectionAsEOF(true))
			z = 1
		}
		var wrapped bytes.Buffer
		var wsrc io.ReadSeeker = bytes.NewReader(x)
		if g.pick(2) == 0 {
			wsrc = struct{ io.ReadSeeker }{wsrc} // a source that can only Read and Seek (no ReadAt, no ReadByte)
		}
		err := carv2.WrapV1(wsrc, &wrapped, wopts...)
		res := "r=" + classifyIdx(err)
		if err == nil {
			res = "r=ok out=" + hexOr(wrapped.Bytes())
		}
		o.Line(fmt.Sprintf("xform op=wrap codec=%s sid=%d z=%d mcs=%d roots=%s blocks=%s in=%s", codec, b2i(sid), z, mcs, rootsArg(roots),
			blocksStr(bs), hex.EncodeToString(x)), res)
		o.Count("wrap/" + codec)
		// --- WrapV1File: the same transform through the file API, onto an absent, a larger and a
		// smaller pre-existing destination (the destination is overwritten: nothing of it may survive)
		for _, dst := range []string{"absent", "larger", "smaller"} {
			sp := tmpPath("c10-wsrc.car")
			dpth := tmpPath("c10-wdst.car")
			os.WriteFile(sp, x0, 0o644)
			os.Remove(dpth)
			switch dst {
			case "larger":
				os.WriteFile(dpth, g.bytes(2*len(x0)+400+g.pick(800)), 0o644)
			case "smaller":
				os.WriteFile(dpth, g.bytes(1+g.pick(60)), 0o644)
			}
			ferr := carv2.WrapV1File(sp, dpth) // takes no options: library defaults
			fres := "r=" + classifyIdx(ferr)
			if ferr == nil {
				out, _ := os.ReadFile(dpth)
				fres = "r=ok out=" + hexOr(out)
			}
			o.Line(fmt.Sprintf("xform op=wrap dst=%s codec=mh sid=0 z=0 mcs=2048 roots=%s blocks=%s in=%s", dst, rootsArg(roots),
				blocksStr(bs), hex.EncodeToString(x0)), fres)
			o.Count("wrapfile/" + dst)
			os.Remove(sp)
			os.Remove(dpth)
		}
		// --- ExtractV1File over several CARv2 shapes and destination states
		var srcs [][]byte
		if err == nil {
			srcs = append(srcs, wrapped.Bytes())
		}
		dp := []int{0, 1, 9, 200, 4097}[g.pick(5)]
		srcs = append(srcs, indexlessV2(x, dp))
		srcs = append(srcs, writeAll(roots, bs, false, carv2.UseDataPadding(uint64(dp)), carv2.UseIndexPadding(uint64(g.pick(40)))))
		for si, src := range srcs {
			// the payload through Reader.DataReader: one reader interrupted by other calls on the same Reader
			// (Roots, Inspect, a second DataReader read to the end), and that second reader — each must
			// deliver exactly the payload
			if rd, err := carv2.NewReader(bytes.NewReader(src)); err == nil {
				want := x
				if si == len(srcs)-1 {
					want = payloadOf(src)
				}
				res1, res2 := "r=err", "r=err"
				if d1, err := rd.DataReader(); err == nil {
					half := make([]byte, len(want)/2)
					n1, _ := io.ReadFull(d1, half)
					rd.Roots()
					rd.Inspect(false)
					var second []byte
					if d2, err := rd.DataReader(); err == nil {
						second, _ = io.ReadAll(d2)
						res2 = "r=ok out=" + hexOr(second)
					}
					rest, _ := io.ReadAll(d1)
					res1 = "r=ok out=" + hexOr(append(half[:n1], rest...))
				}
				o.Line(fmt.Sprintf("xform op=extract dst=reader1 x=%s in=%s", hex.EncodeToString(want), hex.EncodeToString(src)), res1)
				o.Line(fmt.Sprintf("xform op=extract dst=reader2 x=%s in=%s", hex.EncodeToString(want), hex.EncodeToString(src)), res2)
				o.Count("extract/datareader")
			}
			for _, dst := range []string{"absent", "larger", "same", "samelink", "samerel"} {
				sp := tmpPath(fmt.Sprintf("c10-src-%d.car", si))
				dpth := tmpPath(fmt.Sprintf("c10-dst-%d.car", si))
				os.WriteFile(sp, src, 0o644)
				os.Remove(dpth)
				alias := ""
				switch dst {
				case "larger":
					os.WriteFile(dpth, g.bytes(len(src)+50+g.pick(100)), 0o644)
				case "same":
					dpth = sp
				case "samelink": // the same file under another name: a symbolic link to the source
					os.Symlink(sp, dpth)
					dst, alias = "same", " alias=link"
				case "samerel": // the same file spelled differently: through "dir/../"
					dpth = filepath.Join(filepath.Dir(sp), "x", "..", filepath.Base(sp))
					os.MkdirAll(filepath.Join(filepath.Dir(sp), "x"), 0o755)
					if g.pick(2) == 0 {
						hl := tmpPath(fmt.Sprintf("c10-hard-%d.car", si))
						os.Remove(hl)
						if os.Link(sp, hl) == nil { // or a hard link
							dpth = hl
							defer os.Remove(hl)
						}
					}
					dst, alias = "same", " alias=spelling"
				}
				err := carv2.ExtractV1File(sp, dpth)
				res := "r=" + classify(err)
				if err == nil {
					out, _ := os.ReadFile(sp)
					if alias == "" {
						out, _ = os.ReadFile(dpth)
					}
					res = "r=ok out=" + hexOr(out)
				}
				// the payload the source was built from (the spec's expectation), hidden from the model
				var want []byte
				want = x
				if si == len(srcs)-1 {
					want = payloadOf(src)
				}
				o.Line(fmt.Sprintf("xform op=extract dst=%s%s x=%s in=%s", dst, alias, hex.EncodeToString(want), hex.EncodeToString(src)), res)
				o.Count("extract/" + dst)
				os.Remove(sp)
				os.Remove(dpth)
			}
		}
		// --- ReplaceRootsInFile: same encoded size (swap/alter a root of equal length) or different
		for _, file := range [][]byte{x, srcs[len(srcs)-1]} {
			var nr []cid.Cid
			switch g.pick(4) {
			case 0:
				nr = append([]cid.Cid{}, roots...)
				for i := range nr { // same lengths: replace by another CID of the same byte length
					nr[i] = sameLenCid(g, nr[i])
				}
			case 1:
				nr = append(append([]cid.Cid{}, roots...), g.Block().C)
			case 2:
				if len(roots) > 0 {
					nr = roots[1:]
				} else {
					nr = []cid.Cid{g.Block().C}
				}
			default:
				nr = g.Roots(bs)
			}
			p := tmpPath("c10-rr.car")
			os.WriteFile(p, file, 0o644)
			err := carv2.ReplaceRootsInFile(p, nr)
			after, _ := os.ReadFile(p)
			os.Remove(p)
			base := 0
			if len(file) > 11 && file[10] == 2 && bytes.Equal(file[:11], carv2.Pragma) {
				base = int(leU64(file[27:35]))
			}
			r := "ok"
			if err != nil {
				r = "err"
			}
			o.Line(fmt.Sprintf("xform op=replace base=%d old=%s roots=%s in=%s", base, rootsArg(roots), rootsArg(nr), hex.EncodeToString(file)),
				fmt.Sprintf("r=%s out=%s", r, hexOr(after)))
			o.Count("replace/" + r)
		}
	}
	if workDir != "" {
		os.RemoveAll(workDir)
	}
}

func payloadOf(v2 []byte) []byte {
	off, size := leU64(v2[27:35]), leU64(v2[35:43])
	return v2[off : off+size]
}

// sameLenCid returns a different CID with the same byte length.
func sameLenCid(g *Gen, c cid.Cid) cid.Cid {
	b := append([]byte{}, c.Bytes()...)
	b[len(b)-1] ^= byte(1 + g.pick(255))
	n, err := cid.Cast(b)
	if err != nil {
		return c
	}
	return n
}
