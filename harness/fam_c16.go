package main

import (
	"errors"
	"fmt"
	"os"

	"github.com/ipfs/go-cid"
	carv2 "github.com/ipld/go-car/v2"
	"github.com/ipld/go-car/v2/storage"
)

var errInjected = errors.New("injected write failure")

// faultCtl arms one failure: the k-th write call from now on returns after n bytes with an error.
type faultCtl struct {
	armed   bool
	k       int
	calls   int
	frac    int // numerator of the fraction of the buffer that still gets written (0..4 quarters, 5 = all)
	fired   bool
	firedN  int
}

func (f *faultCtl) arm(k, frac int) { *f = faultCtl{armed: true, k: k, frac: frac} }
func (f *faultCtl) disarm()         { f.armed = false }

// decide returns (n, true) if this call must fail after n bytes.
func (f *faultCtl) decide(l int) (int, bool) {
	if !f.armed {
		return 0, false
	}
	f.calls++
	if f.calls-1 != f.k {
		return 0, false
	}
	n := l
	if f.frac < 5 {
		n = l * f.frac / 4
		if f.frac > 0 && n == 0 && l > 0 {
			n = 1
		}
		if n > l {
			n = l
		}
	}
	f.fired, f.firedN, f.armed = true, n, false
	return n, true
}

type faultyFile struct {
	memFile
	fc *faultCtl
}

func (t *faultyFile) WriteAt(p []byte, off int64) (int, error) {
	if n, fail := t.fc.decide(len(p)); fail {
		t.memFile.WriteAt(p[:n], off)
		return n, errInjected
	}
	return t.memFile.WriteAt(p, off)
}

func (t *faultyFile) Write(p []byte) (int, error) {
	n, err := t.WriteAt(p, t.pos)
	t.pos += int64(n)
	return n, err
}

func famC16(g *Gen, o *Out, n int, thorough bool) {
	seq := 0
	for c := 0; c < n; c++ {
		wo := g.wOpts()
		wo.mcs = 2048
		api := []string{"bs", "st"}[g.pick(2)]
		bs := g.Blocks(6)
		if len(bs) == 0 {
			bs = []Blk{g.Block()}
		}
		o.HashBlocks(bs)
		roots := g.Roots(bs)
		fc := &faultCtl{}
		var st store
		var err error
		var ff *faultyFile
		seq++
		if api == "bs" {
			st, err = openStore("bs", wo, roots, seq)
			carv2.VerifSetWriteHook(func(kind string, off int64, b []byte) (int, error, bool) {
				if kind != "w" {
					return 0, nil, false
				}
				if n, fail := fc.decide(len(b)); fail {
					if bst, ok := st.(*bsStore); ok && n > 0 {
						f, _ := os.OpenFile(bst.path, os.O_WRONLY, 0)
						f.WriteAt(b[:n], off)
						f.Close()
					}
					return n, errInjected, true
				}
				return 0, nil, false
			})
		} else {
			ff = &faultyFile{fc: fc}
			var sc *storage.StorageCar
			sc, err = storage.NewReadableWritable(ff, roots, wo.opts()...)
			st = &stStore{sc: sc, mf: &ff.memFile}
		}
		o.Line(fmt.Sprintf("open api=%s %s roots=%s", api, wo, rootsArg(roots)), "r="+classifyStore(err))
		if err != nil {
			carv2.VerifSetWriteHook(nil)
			continue
		}
		if c%3 == 1 {
			// a resumed session: one block stored, the session interrupted (dropped / discarded, or finalized)
			// and reopened, and the very first write of the resumed session fails — the undo must go back
			// to where the resumed session started, not to the start of the payload
			b0, b1 := bs[0], bs[len(bs)-1]
			o.Line(fmt.Sprintf("put c=%x d=%s", b0.C.Bytes(), hexOr(b0.D)), "r="+st.do("put", b0.C, b0.D, nil))
			if c%6 == 1 {
				o.Line("finalize", "r="+st.do("finalize", cid.Undef, nil, nil))
			} else if api == "bs" {
				o.Line("discard", "r="+st.do("discard", cid.Undef, nil, nil))
			}
			var rerr error
			if api == "bs" {
				rerr = st.reopen(wo, roots)
			} else {
				var sc *storage.StorageCar
				sc, rerr = storage.OpenReadableWritable(ff, roots, wo.opts()...)
				if rerr == nil {
					st.(*stStore).sc = sc
				}
			}
			o.Line(fmt.Sprintf("reopen api=%s %s roots=%s", api, wo, rootsArg(roots)), "r="+okOrErr(rerr))
			if rerr == nil {
				fc.arm(c/3%3, (c/9)%6)
				r := st.do("put", b1.C, b1.D, nil)
				fail := ""
				if fc.fired {
					fail = fmt.Sprintf(" fail=%d:%d", fc.k, fc.firedN)
					if r == "ok" {
						r = "ok-despite-failed-write"
					} else {
						r = "other"
					}
				}
				fc.disarm()
				o.Line(fmt.Sprintf("put c=%x d=%s%s", b1.C.Bytes(), hexOr(b1.D), fail), "r="+r)
				o.Line(fmt.Sprintf("get c=%x", b0.C.Bytes()), "r="+st.do("get", b0.C, nil, nil))
				o.Count(api + "/resumed-first-put-fault/" + fmt.Sprint(fc.fired))
			}
		}
		steps := 3 + g.pick(8)
		if thorough {
			steps = 4 + g.pick(20)
		}
		dead := false
		for i := 0; i < steps && !dead; i++ {
			b := bs[g.pick(len(bs))]
			switch k := g.pick(10); {
			case k < 4: // put with an injected failure on one of its (up to three) write calls
				fc.arm(g.pick(3), g.pick(6))
				r := st.do("put", b.C, b.D, nil)
				fail := ""
				if fc.fired {
					fail = fmt.Sprintf(" fail=%d:%d", fc.k, fc.firedN)
					if r == "ok" {
						r = "ok-despite-failed-write"
					} else {
						r = "other"
					}
				}
				fc.disarm()
				o.Line(fmt.Sprintf("put c=%x d=%s%s", b.C.Bytes(), hexOr(b.D), fail), "r="+r)
				o.Count(api + "/put-fault/" + fmt.Sprint(fc.fired))
			case k < 6 && api == "bs": // PutMany with a failure on one of the batch's write calls
				many := []Blk{b}
				for j := 0; j < 1+g.pick(3); j++ {
					many = append(many, bs[g.pick(len(bs))])
				}
				fc.arm(g.pick(3*len(many)), g.pick(6))
				r := st.do("many", cid.Undef, nil, many)
				fail := ""
				if fc.fired {
					fail = fmt.Sprintf(" fail=%d:%d", fc.k, fc.firedN)
					if r == "ok" {
						r = "ok-despite-failed-write"
					} else {
						r = "other"
					}
				}
				fc.disarm()
				o.Line(fmt.Sprintf("many b=%s%s", blocksStr(many), fail), "r="+r)
				o.Count("bs/putmany-fault/" + fmt.Sprint(fc.fired))
			case k < 7:
				o.Line(fmt.Sprintf("put c=%x d=%s", b.C.Bytes(), hexOr(b.D)), "r="+st.do("put", b.C, b.D, nil))
			case k < 8:
				o.Line(fmt.Sprintf("has c=%x", b.C.Bytes()), "r="+st.do("has", b.C, nil, nil))
			case k < 9:
				o.Line(fmt.Sprintf("get c=%x", b.C.Bytes()), "r="+st.do("get", b.C, nil, nil))
			default:
				if api == "bs" && !wo.v1 && g.pick(3) == 0 {
					// FinalizeReadOnly with an injected failure, then the calls a caller would try next: none may
					// claim success, lookups still answer, and the file is what the failed call left
					fc.arm(g.pick(14), g.pick(6))
					r := st.do("finro", cid.Undef, nil, nil)
					if fc.fired {
						if r == "ok" {
							r = "ok-despite-failed-write"
						} else {
							r = "other"
						}
						o.Line(fmt.Sprintf("finro fail=%d:%d", fc.k, fc.firedN), "r="+r)
						fc.disarm()
						o.Line("finro", "r="+st.do("finro", cid.Undef, nil, nil))
						o.Line(fmt.Sprintf("put c=%x d=%s", b.C.Bytes(), hexOr(b.D)), "r="+st.do("put", b.C, b.D, nil))
						o.Line(fmt.Sprintf("has c=%x", b.C.Bytes()), "r="+st.do("has", b.C, nil, nil))
						o.Line("finalize", "r="+st.do("finalize", cid.Undef, nil, nil))
						dead = true
					} else {
						o.Line("finro", "r="+r)
					}
					fc.disarm()
					o.Count("bs/finro-fault/" + fmt.Sprint(fc.fired))
					continue
				}
				if g.pick(3) == 0 { // Finalize with an injected failure: nothing can succeed afterwards
					fc.arm(g.pick(14), g.pick(6))
					r := st.do("finalize", cid.Undef, nil, nil)
					if fc.fired {
						if r == "ok" {
							r = "ok-despite-failed-write"
						} else {
							r = "other"
						}
						o.Line(fmt.Sprintf("finalize fail=%d:%d", fc.k, fc.firedN), "r="+r)
						o.Line(fmt.Sprintf("put c=%x d=%s", b.C.Bytes(), hexOr(b.D)), "r="+st.do("put", b.C, b.D, nil))
						dead = true
					} else {
						o.Line("finalize", "r="+r)
						dead = true
						o.Line("file", fmt.Sprintf("file=%x", st.fileBytes()))
						o.Line("fcheck", fcheck(st.fileBytes(), seq))
					}
					fc.disarm()
					o.Count(api + "/finalize-fault/" + fmt.Sprint(fc.fired))
				}
			}
		}
		if !dead {
			o.Line("finalize", "r="+st.do("finalize", cid.Undef, nil, nil))
			f := st.fileBytes()
			o.Line("file", fmt.Sprintf("file=%x", f))
			o.Line("fcheck", fcheck(f, seq))
		}
		carv2.VerifSetWriteHook(nil)
		st.cleanup()
	}
	if workDir != "" {
		os.RemoveAll(workDir)
	}
}
