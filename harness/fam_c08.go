package main

import (
	"bytes"
	"context"
	"fmt"
	"os"
	"strings"
	"sync"
	"sync/atomic"
	"time"

	blocks "github.com/ipfs/go-block-format"
	"github.com/ipfs/go-cid"
	carv2 "github.com/ipld/go-car/v2"
	"github.com/ipld/go-car/v2/blockstore"
	"github.com/ipld/go-car/v2/storage"
	"github.com/ipld/go-car/v2/storage/deferred"
	mh "github.com/multiformats/go-multihash"
)

type histOp struct {
	g        int
	inv, ret int64
	op       string
	c        cid.Cid
	data     []byte
	found    bool
	err      string
	got      []byte
}

var clock int64

func tick() int64 { return atomic.AddInt64(&clock, 1) }

// raceLogSize: bytes the race detector has written so far (GORACE=log_path=<prefix>), 0 if not a race build.
func raceLogSize() int64 {
	gr := os.Getenv("GORACE")
	for _, f := range strings.Fields(gr) {
		if strings.HasPrefix(f, "log_path=") {
			p := strings.TrimPrefix(f, "log_path=") + fmt.Sprintf(".%d", os.Getpid())
			if st, err := os.Stat(p); err == nil {
				return st.Size()
			}
		}
	}
	return 0
}

func famC08(g *Gen, o *Out, n int, thorough bool) {
	ctx := context.Background()
	bigBatchVsFinalizeReadOnly(g, o, 8)
	for c := 0; c < n; c++ {
		api := []string{"bs", "st", "def"}[g.pick(3)]
		wo := g.wOpts()
		wo.mcs = 2048
		wo.dup = false
		if g.pick(4) == 0 {
			wo.dup = true
		}
		alpha := g.Blocks(8)
		for len(alpha) < 3 {
			alpha = append(alpha, g.Block())
		}
		roots := g.Roots(alpha)
		G := 2 + g.pick(7)
		if thorough {
			G = 2 + g.pick(15)
		}
		K := 10 + g.pick(30)
		seeds := make([]int64, G)
		for i := range seeds {
			seeds[i] = g.Int63()
		}
		// the shared instance
		var put func(b Blk) error
		var has func(c cid.Cid) (bool, error)
		var get func(c cid.Cid) ([]byte, error)
		var keys func() error
		var getsize func(c cid.Cid) (int, error)
		var putmany func(bs []Blk) error
		var rootsOf func() ([]cid.Cid, error)
		var finalize func() error
		var fileBytes func() []byte
		p := tmpPath(fmt.Sprintf("c08-%d.car", c))
		os.Remove(p)
		switch api {
		case "bs":
			rw, err := blockstore.OpenReadWrite(p, roots, wo.opts()...)
			if err != nil {
				continue
			}
			put = func(b Blk) error { blk, _ := blocks.NewBlockWithCid(b.D, b.C); return rw.Put(ctx, blk) }
			has = func(c cid.Cid) (bool, error) { return rw.Has(ctx, c) }
			get = func(c cid.Cid) ([]byte, error) {
				b, err := rw.Get(ctx, c)
				if err != nil {
					return nil, err
				}
				return b.RawData(), nil
			}
			keys = func() error {
				ch, err := rw.AllKeysChan(ctx)
				if err != nil {
					return err
				}
				for range ch {
				}
				return nil
			}
			getsize = func(c cid.Cid) (int, error) { return rw.GetSize(ctx, c) }
			putmany = func(bs []Blk) error {
				var l []blocks.Block
				for _, b := range bs {
					blk, _ := blocks.NewBlockWithCid(b.D, b.C)
					l = append(l, blk)
				}
				return rw.PutMany(ctx, l)
			}
			rootsOf = rw.Roots
			finalize = rw.Finalize
			fileBytes = func() []byte { b, _ := os.ReadFile(p); return b }
		case "st":
			mf := &lockedMem{}
			sc, err := storage.NewReadableWritable(mf, roots, wo.opts()...)
			if err != nil {
				continue
			}
			put = func(b Blk) error { return sc.Put(ctx, string(b.C.Bytes()), b.D) }
			has = func(c cid.Cid) (bool, error) { return sc.Has(ctx, string(c.Bytes())) }
			get = func(c cid.Cid) ([]byte, error) { return sc.Get(ctx, string(c.Bytes())) }
			rootsOf = func() ([]cid.Cid, error) { return sc.Roots(), nil }
			finalize = sc.Finalize
			fileBytes = func() []byte { return mf.bytes() }
		default:
			dcw := deferred.NewDeferredCarWriterForPath(p, roots, wo.opts()...)
			// listeners registered before the goroutines start (registration itself is set-up): the
			// listener list is state that concurrent Puts share; once-only listeners are removed by Put
			var onceFired, alwaysFired int32
			for i := 0; i < g.pick(4); i++ {
				if g.pick(2) == 0 {
					dcw.OnPut(func(int) { atomic.AddInt32(&onceFired, 1) }, true)
				} else {
					dcw.OnPut(func(int) { atomic.AddInt32(&alwaysFired, 1) }, false)
				}
			}
			put = func(b Blk) error { return dcw.Put(ctx, string(b.C.Bytes()), b.D) }
			has = func(c cid.Cid) (bool, error) { return dcw.Has(ctx, string(c.Bytes())) }
			finalize = dcw.Close
			fileBytes = func() []byte { b, _ := os.ReadFile(p); return b }
		}
		concFin := g.pick(2) == 0
		race0 := raceLogSize()
		var mu sync.Mutex
		var hist []histOp
		var panics, badAnswers, badRootsErr, badRoots, badSize, finStarted int32
		var wg sync.WaitGroup
		done := make(chan struct{})
		start := make(chan struct{})
		for gi := 0; gi < G; gi++ {
			wg.Add(1)
			go func(gi int) {
				defer wg.Done()
				defer func() {
					if r := recover(); r != nil {
						atomic.AddInt32(&panics, 1)
					}
				}()
				lg := newGen(seeds[gi])
				<-start
				for k := 0; k < K; k++ {
					b := alpha[lg.pick(len(alpha))]
					h := histOp{g: gi, c: b.C, data: b.D}
					h.inv = tick()
					switch r := lg.pick(13); {
					case r == 10 && rootsOf != nil:
						// Roots: the roots the store was opened with, every time (or the closed error)
						h.op = "roots"
						rs, err := rootsOf()
						if err != nil {
							h.err = classifyStore(err)
							// an error is an answer only a finalized / closed store may give (Roots reads the
							// file without a closed check: after Finalize it reports the closed file)
							if atomic.LoadInt32(&finStarted) == 0 {
								atomic.AddInt32(&badAnswers, 1)
								atomic.AddInt32(&badRootsErr, 1)
								if os.Getenv("VERIF_DEBUG") != "" {
									fmt.Fprintln(os.Stderr, "roots error:", err)
								}
							}
						} else if !sameCids(rs, roots) {
							atomic.AddInt32(&badAnswers, 1)
							atomic.AddInt32(&badRoots, 1)
						}
					case r == 11 && getsize != nil:
						// GetSize: of a block that was put, its exact length; never a size of something else
						h.op = "has" // judged like Has: found iff some Put of the key completed / overlapped
						if isIdentityCid(b.C) {
							h.op = "getsize" // identity CIDs: GetSize answers from the CID alone (recorded C04/C07 finding), not judged here
						}
						n, err := getsize(b.C)
						if err == nil && n != len(b.D) && !isIdentityCid(b.C) {
							atomic.AddInt32(&badAnswers, 1)
							atomic.AddInt32(&badSize, 1)
						}
						h.found = err == nil
						h.got = b.D
						if err != nil {
							h.err = classifyStore(err)
							h.got = nil
						}
					case r == 12 && putmany != nil:
						h.op = "put"
						b2 := alpha[lg.pick(len(alpha))]
						if err := putmany([]Blk{b, b2}); err != nil {
							h.err = classifyStore(err)
						} else {
							h.ret = tick()
							mu.Lock()
							hist = append(hist, h, histOp{g: gi, c: b2.C, data: b2.D, op: "put", inv: h.inv, ret: h.ret})
							mu.Unlock()
							continue
						}
					case r < 5:
						h.op = "put"
						if err := put(b); err != nil {
							h.err = classifyStore(err)
						}
					case r < 7:
						h.op = "has"
						f, err := has(b.C)
						h.found = f
						if err != nil {
							h.err = classifyStore(err)
						}
					case r < 9 && get != nil:
						h.op = "get"
						d, err := get(b.C)
						h.got = d
						h.found = err == nil
						if err != nil {
							h.err = classifyStore(err)
						}
					case keys != nil:
						h.op = "keys"
						if err := keys(); err != nil {
							h.err = classifyStore(err)
						}
					default:
						h.op = "has"
						f, err := has(b.C)
						h.found = f
						if err != nil {
							h.err = classifyStore(err)
						}
					}
					h.ret = tick()
					mu.Lock()
					hist = append(hist, h)
					mu.Unlock()
				}
			}(gi)
		}
		if concFin { // Finalize / Close racing the other goroutines' Puts and reads, at a random moment
			wg.Add(1)
			delay := time.Duration(g.pick(400)) * time.Microsecond
			go func() {
				defer wg.Done()
				<-start
				time.Sleep(delay)
				atomic.StoreInt32(&finStarted, 1)
				finalize()
			}()
		}
		close(start)
		go func() { wg.Wait(); close(done) }()
		deadlock := 0
		select {
		case <-done:
		case <-time.After(60 * time.Second):
			deadlock = 1
		}
		finOK := 0
		final := 1
		rt := 1
		if deadlock == 0 {
			if err := finalize(); err == nil {
				finOK = 1
			}
			rt = b2i(checkRealTime(wo, hist) && atomic.LoadInt32(&badAnswers) == 0)
			final = b2i(checkFinalFile(wo, hist, fileBytes(), api == "def" && !anyPut(hist)))
		}
		race := b2i(raceLogSize() > race0)
		o.Count(fmt.Sprintf("concurrent-finalize=%d", b2i(concFin)))
		if n := atomic.LoadInt32(&badRootsErr); n > 0 {
			o.Count("bad/roots-error")
		}
		if n := atomic.LoadInt32(&badRoots); n > 0 {
			o.Count("bad/roots-differ")
		}
		if n := atomic.LoadInt32(&badSize); n > 0 {
			o.Count("bad/getsize")
		}
		o.Line(fmt.Sprintf("conc api=%s %s goroutines=%d ops=%d", api, wo, G, K),
			fmt.Sprintf("race=%d panic=%d deadlock=%d rt=%d final=%d _finalize=%d", race, atomic.LoadInt32(&panics), deadlock, rt, final, finOK))
		o.Count(api)
		os.Remove(p)
	}
	if workDir != "" {
		os.RemoveAll(workDir)
	}
}

func anyPut(hist []histOp) bool {
	for _, h := range hist {
		if h.op == "put" && h.err == "" {
			return true
		}
	}
	return false
}

// checkRealTime: a block whose Put returned is found by every later Has/Get with its exact bytes;
// nothing is reported that was never put.
func checkRealTime(wo wOpts, hist []histOp) bool {
	for _, h := range hist {
		if h.err != "" && h.err != "notfound" {
			continue
		}
		if h.op != "has" && h.op != "get" {
			continue
		}
		if idRule(wo, h.c) {
			continue
		}
		putBefore, putAtAll := false, false
		for _, p := range hist {
			if p.op != "put" || p.err != "" || !sameKey(wo, p.c, h.c) {
				continue
			}
			if p.inv < h.ret {
				putAtAll = true
			}
			if p.ret < h.inv {
				putBefore = true
			}
		}
		if putBefore && !h.found {
			return false // a completed Put is not visible
		}
		if h.found && !putAtAll {
			return false // reported something never put
		}
		if h.op == "get" && h.found {
			ok := false
			for _, p := range hist {
				if p.op == "put" && sameKey(wo, p.c, h.c) && bytes.Equal(p.data, h.got) {
					ok = true
				}
			}
			if !ok {
				return false
			}
		}
	}
	return true
}

// checkFinalFile: the finalized file decodes; with de-duplication on, each distinct key once; every
// successfully put (non-identity-rule) key present.
func checkFinalFile(wo wOpts, hist []histOp, file []byte, emptyDeferred bool) bool {
	if emptyDeferred {
		return len(file) == 0
	}
	br, err := carv2.NewBlockReader(bytes.NewReader(file))
	if err != nil {
		return false
	}
	got, err := drain(br)
	if classify(err) != "eof" {
		return false
	}
	for _, h := range hist {
		if h.op != "put" || h.err != "" || idRule(wo, h.c) {
			continue
		}
		n := 0
		for _, y := range got {
			if sameKey(wo, y.C, h.c) {
				n++
			}
		}
		if n == 0 || (!wo.dup && n != 1) {
			return false
		}
	}
	return true
}

// lockedMem is a memFile safe for concurrent ReadAt/WriteAt (the io.ReaderAt/WriterAt contracts
// require the implementation, not the caller, to allow parallel calls).
type lockedMem struct {
	mu sync.RWMutex
	m  memFile
}

func (l *lockedMem) WriteAt(p []byte, off int64) (int, error) { l.mu.Lock(); defer l.mu.Unlock(); return l.m.WriteAt(p, off) }
func (l *lockedMem) Write(p []byte) (int, error)             { l.mu.Lock(); defer l.mu.Unlock(); return l.m.Write(p) }
func (l *lockedMem) ReadAt(p []byte, off int64) (int, error) { l.mu.RLock(); defer l.mu.RUnlock(); return l.m.ReadAt(p, off) }
func (l *lockedMem) Truncate(n int64) error                  { l.mu.Lock(); defer l.mu.Unlock(); return l.m.Truncate(n) }
func (l *lockedMem) bytes() []byte                           { l.mu.RLock(); defer l.mu.RUnlock(); return append([]byte{}, l.m.b...) }

func sameCids(a, b []cid.Cid) bool {
	if len(a) != len(b) {
		return false
	}
	for i := range a {
		if !a[i].Equals(b[i]) {
			return false
		}
	}
	return true
}

func isIdentityCid(c cid.Cid) bool { return c.Prefix().MhType == 0 }

// bigBatchVsFinalizeReadOnly: ONE long-running call against a call that changes the typestate. A PutMany
// of several hundred blocks races FinalizeReadOnly (which does not close the store): whichever wins the
// lock, the file after the closing Finalize must decode, and a PutMany that reported success must have
// every one of its blocks in it. A method that lets go of the lock in the middle of its batch fails here.
func bigBatchVsFinalizeReadOnly(g *Gen, o *Out, trials int) {
	ctx := context.Background()
	for t := 0; t < trials; t++ {
		wo := g.wOpts()
		wo.mcs, wo.dup, wo.v1, wo.whole = 2048, false, false, false
		root := g.Block()
		p := tmpPath(fmt.Sprintf("c08-batch-%d.car", t))
		os.Remove(p)
		rw, err := blockstore.OpenReadWrite(p, []cid.Cid{root.C}, wo.opts()...)
		if err != nil {
			continue
		}
		var batch []blocks.Block
		want := map[string]bool{}
		for i := 0; i < 300+g.pick(700); i++ {
			d := append(g.bytes(8), byte(i), byte(i>>8))
			h, _ := mh.Sum(d, mh.SHA2_256, -1)
			bc := cid.NewCidV1(cid.Raw, h)
			blk, _ := blocks.NewBlockWithCid(d, bc)
			batch = append(batch, blk)
			want[string(bc.Hash())] = true
		}
		var perr error
		var wg sync.WaitGroup
		start := make(chan struct{})
		wg.Add(2)
		go func() { defer wg.Done(); <-start; perr = rw.PutMany(ctx, batch) }()
		delay := time.Duration(t*40) * time.Microsecond
		go func() { defer wg.Done(); <-start; time.Sleep(delay); rw.FinalizeReadOnly() }()
		close(start)
		done := make(chan struct{})
		go func() { wg.Wait(); close(done) }()
		deadlock := 0
		select {
		case <-done:
		case <-time.After(60 * time.Second):
			deadlock = 1
		}
		final := 1
		if deadlock == 0 {
			rw.Finalize()
			file, _ := os.ReadFile(p)
			got := map[string]bool{}
			br, err := carv2.NewBlockReader(bytes.NewReader(file))
			if err != nil {
				final = 0
			} else {
				for {
					blk, err := br.Next()
					if err != nil {
						if err.Error() != "EOF" {
							final = 0
						}
						break
					}
					got[string(blk.Cid().Hash())] = true
				}
			}
			if perr == nil {
				for k := range want {
					if !got[k] {
						final = 0
						break
					}
				}
			}
		}
		o.Line(fmt.Sprintf("conc api=bs %s goroutines=2 ops=1 batch=%d", wo, len(batch)),
			fmt.Sprintf("race=0 panic=0 deadlock=%d rt=1 final=%d _putmany=%d", deadlock, final, b2i(perr == nil)))
		o.Count("batch-vs-finalize-readonly")
		os.Remove(p)
	}
}
