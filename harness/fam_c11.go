package main

import (
	"github.com/multiformats/go-multicodec"
	"bufio"
	"bytes"
	"io"
	"testing/iotest"
	"fmt"
	"strings"

	"github.com/ipfs/go-cid"
	"github.com/ipld/go-car/v2/index"
	mh "github.com/multiformats/go-multihash"
)

// recordCid builds a CID with an arbitrary hash code and digest width (index code paths do not hash).
func (g *Gen) recordCid(width int) cid.Cid {
	codes := []uint64{mh.SHA2_256, mh.SHA2_256, mh.IDENTITY, mh.SHA2_512, mh.SHA3_256, 0xb220, 0x1e, 0x7fffffff}
	code := codes[g.pick(len(codes))]
	m, err := mh.Encode(g.bytes(width), code)
	if err != nil {
		panic(err)
	}
	return cid.NewCidV1([]uint64{cid.Raw, cid.DagCBOR, 0x0129}[g.pick(3)], m)
}

// bigBucketCases: one index whose single bucket is larger than a megabyte (27 000 records of 40 bytes):
// the count the writer reports against the bytes written, the round trip and three lookups.
func bigBucketCases(o *Out) {
	const n = 27000
	rec := func(i int) index.Record {
		d := make([]byte, 32)
		d[0], d[1], d[2], d[3] = byte(i>>24), byte(i>>16), byte(i>>8), byte(i)
		for j := 0; j < 28; j++ {
			d[4+j] = byte(i + j + 4)
		}
		m, _ := mh.Encode(d, mh.SHA2_256)
		return index.Record{Cid: cid.NewCidV1(cid.Raw, m), Offset: uint64(100*i + 7)}
	}
	recs := make([]index.Record, n)
	for i := range recs {
		recs[n-1-i] = rec(i) // loaded in descending order
	}
	qs := []cid.Cid{rec(0).Cid, rec(n / 2).Cid, rec(n - 1).Cid}
	for _, codec := range []string{"sorted", "mh"} {
		idx := newIndex(codec)
		res := "r=err"
		if err := idx.Load(recs); err == nil {
			var buf bytes.Buffer
			nw, err := index.WriteTo(idx, &buf)
			if err == nil {
				res = fmt.Sprintf("r=ok n=%d len=%d ", nw, buf.Len())
				rd := bytes.NewReader(buf.Bytes())
				if back, err := index.ReadFrom(rd); err != nil {
					res += "rt=err"
				} else {
					res += fmt.Sprintf("rt=ok rest=%d get=%s", rd.Len(), queryIndex(back, qs))
				}
			}
		}
		o.Line(fmt.Sprintf("idxbig codec=%s n=%d", codec, n), res)
		o.Count("bigbucket/" + codec)
		// the same records through the in-memory insertion index and Flatten (what Finalize does): more
		// records than any batch size a flattening loop might use; the flattened index is the same index
		res = "r=err"
		ins := index.NewInsertionIndex()
		if err := ins.Load(recs); err == nil {
			mc := multicodec.CarIndexSorted
			if codec == "mh" {
				mc = multicodec.CarMultihashIndexSorted
			}
			if flat, err := ins.Flatten(mc); err == nil {
				var buf bytes.Buffer
				nw, err := index.WriteTo(flat, &buf)
				if err == nil {
					res = fmt.Sprintf("r=ok n=%d len=%d ", nw, buf.Len())
					rd := bytes.NewReader(buf.Bytes())
					if back, err := index.ReadFrom(rd); err != nil {
						res += "rt=err"
					} else {
						res += fmt.Sprintf("rt=ok rest=%d get=%s", rd.Len(), queryIndex(back, qs))
					}
				}
			}
		}
		o.Line(fmt.Sprintf("idxbig codec=%s n=%d via=flatten", codec, n), res)
		o.Count("bigbucket-flatten/" + codec)
	}
}

func famC11(g *Gen, o *Out, n int, thorough bool) {
	bigBucketCases(o)
	for c := 0; c < n; c++ {
		nrec := g.pick(8)
		if thorough {
			nrec = g.pick(20)
		}
		widths := []int{0, 1, 2, 8, 20, 32, 32, 32, 33, 64, 70}
		var recs []index.Record
		nodup := true
		seen := map[string]bool{}
		for i := 0; i < nrec; i++ {
			var k cid.Cid
			if len(recs) > 0 && g.pick(5) == 0 { // duplicate digest, other offset (and maybe other code/codec)
				old := recs[g.pick(len(recs))].Cid
				d, _ := mh.Decode(old.Hash())
				code := d.Code
				if g.pick(2) == 0 {
					code = mh.SHA3_256
				}
				m, _ := mh.Encode(d.Digest, code)
				k = cid.NewCidV1(cid.Raw, m)
			} else if len(recs) > 0 && g.pick(4) == 0 {
				// a near twin: same hash code and width, digest equal up to a late byte (lookups that
				// compare only a prefix, or stop their scan at the first different digest, show here)
				old := recs[g.pick(len(recs))].Cid
				d, _ := mh.Decode(old.Hash())
				nd := append([]byte{}, d.Digest...)
				if len(nd) > 0 {
					p := g.pick(len(nd))
					if len(nd) > 9 && g.pick(3) != 0 {
						p = 8 + g.pick(len(nd)-8)
					}
					nd[p] ^= byte(1 + g.pick(255))
				}
				m, _ := mh.Encode(nd, d.Code)
				k = cid.NewCidV1(cid.Raw, m)
			} else {
				k = g.recordCid(widths[g.pick(len(widths))])
			}
			d, _ := mh.Decode(k.Hash())
			if seen[string(d.Digest)] {
				nodup = false
			}
			seen[string(d.Digest)] = true
			off := uint64(g.Int63())
			if g.pick(3) == 0 {
				off = uint64(g.pick(100000))
			}
			recs = append(recs, index.Record{Cid: k, Offset: off})
		}
		perm := g.Perm(len(recs))
		permuted := make([]index.Record, len(recs))
		ps := make([]string, len(recs))
		for i, p := range perm {
			permuted[i] = recs[p]
			ps[i] = fmt.Sprint(p)
		}
		rs := make([]string, len(recs))
		var qs []cid.Cid
		for i, r := range recs {
			rs[i] = fmt.Sprintf("%x@%d", r.Cid.Bytes(), r.Offset)
			qs = append(qs, r.Cid)
		}
		qs = append(qs, g.recordCid(32), g.recordCid(7))
		recStr, permStr := "-", "-"
		if len(recs) > 0 {
			recStr, permStr = strings.Join(rs, ";"), strings.Join(ps, ".")
		}
		for _, codec := range []string{"sorted", "mh"} {
			idx := newIndex(codec)
			res := ""
			if err := idx.Load(permuted); err != nil {
				res = "r=err"
			} else {
				var buf bytes.Buffer
				nw, err := index.WriteTo(idx, &buf)
				if err != nil {
					res = "r=err"
				} else {
					res = fmt.Sprintf("r=ok n=%d len=%d ", nw, buf.Len())
					if nodup {
						res += "bytes=" + hexOr(buf.Bytes()) + " "
					}
					rd := bytes.NewReader(append(append([]byte{}, buf.Bytes()...)))
					// read back through readers with different delivery habits: everything at once, one byte
					// per Read, half of what is asked, a small buffered reader (what a socket or pipe does)
					var src io.Reader = rd
					how := g.pick(4)
					switch how {
					case 1:
						src = iotest.OneByteReader(rd)
					case 2:
						src = iotest.HalfReader(rd)
					case 3:
						src = bufio.NewReaderSize(iotest.HalfReader(rd), 16)
					}
					back, err := index.ReadFrom(src)
					if err != nil {
						res += "rt=err"
					} else {
						rest := rd.Len()
						if br, ok := src.(*bufio.Reader); ok {
							rest += br.Buffered()
						}
						res += fmt.Sprintf("rt=ok rest=%d get=%s each=%s", rest, queryIndex(back, qs), eachIndex(back))
					}
					o.Count(fmt.Sprintf("readback/%d", how))
				}
			}
			o.Line(fmt.Sprintf("idxser codec=%s nodup=%d recs=%s perm=%s q=%s", codec, b2i(nodup), recStr, permStr, cidsStr(qs)), res)
			o.Count(fmt.Sprintf("%s/nodup=%d", codec, b2i(nodup)))
		}
	}
}
