package main

import (
	"bytes"
	"context"
	"encoding/hex"
	"fmt"
	"io"
	"os"
	"path/filepath"
	"sort"
	"strings"

	"github.com/ipfs/go-cid"
	"github.com/ipfs/go-unixfsnode"
	"github.com/ipfs/go-unixfsnode/data"
	ufsbuilder "github.com/ipfs/go-unixfsnode/data/builder"
	"github.com/ipfs/go-unixfsnode/file"
	"github.com/ipld/go-car/cmd/car/lib"
	carv2 "github.com/ipld/go-car/v2"
	carstorage "github.com/ipld/go-car/v2/storage"
	dagpb "github.com/ipld/go-codec-dagpb"
	"github.com/ipld/go-ipld-prime"
	"github.com/ipld/go-ipld-prime/datamodel"
	"github.com/ipld/go-ipld-prime/linking"
	cidlink "github.com/ipld/go-ipld-prime/linking/cid"
	basicnode "github.com/ipld/go-ipld-prime/node/basic"
	"github.com/ipld/go-ipld-prime/storage/memstore"
	"github.com/multiformats/go-multihash"
)

// ufsDag builds adversarial UnixFS DAGs block by block.
type ufsDag struct {
	ls      ipld.LinkSystem
	store   *memstore.Store
	order   []cid.Cid       // every block stored, in order
	missing map[cid.Cid]bool // blocks left out of the archive
}

func newUfsDag() *ufsDag {
	d := &ufsDag{store: &memstore.Store{}, missing: map[cid.Cid]bool{}}
	d.ls = cidlink.DefaultLinkSystem()
	d.ls.TrustedStorage = true
	d.ls.SetWriteStorage(d.store)
	d.ls.SetReadStorage(d.store)
	inner := d.ls.StorageWriteOpener
	d.ls.StorageWriteOpener = func(lc linking.LinkContext) (io.Writer, linking.BlockWriteCommitter, error) {
		w, c, err := inner(lc)
		return w, func(l datamodel.Link) error {
			d.order = append(d.order, l.(cidlink.Link).Cid)
			return c(l)
		}, err
	}
	return d
}

var rawLP = cidlink.LinkPrototype{Prefix: cid.Prefix{Version: 1, Codec: cid.Raw, MhType: 0x12, MhLength: 32}}
var pbLP = cidlink.LinkPrototype{Prefix: cid.Prefix{Version: 1, Codec: cid.DagProtobuf, MhType: 0x12, MhLength: 32}}

func (d *ufsDag) rawLeaf(b []byte) ipld.Link {
	l, err := d.ls.Store(linking.LinkContext{}, rawLP, basicnode.NewBytes(b))
	if err != nil {
		panic(err)
	}
	return l
}

// pbNode stores a dag-pb node with the given UnixFS Data bytes and links.
func (d *ufsDag) pbNode(ufs []byte, links []dagpb.PBLink) ipld.Link {
	pbb := dagpb.Type.PBNode.NewBuilder()
	pbm, _ := pbb.BeginMap(2)
	pbm.AssembleKey().AssignString("Data")
	pbm.AssembleValue().AssignBytes(ufs)
	pbm.AssembleKey().AssignString("Links")
	lnks, _ := pbm.AssembleValue().BeginList(int64(len(links)))
	for _, e := range links {
		lnks.AssembleValue().AssignNode(e)
	}
	lnks.Finish()
	pbm.Finish()
	l, err := d.ls.Store(linking.LinkContext{}, pbLP, pbb.Build())
	if err != nil {
		panic(err)
	}
	return l
}

// ufsMode: when >= 0 every UnixFS node built carries this Mode field (UnixFS 1.5 metadata)
var ufsMode = -1

func ufsData(typ int64, content []byte, blocksizes []uint64) []byte {
	n, err := ufsbuilder.BuildUnixFS(func(b *ufsbuilder.Builder) {
		ufsbuilder.DataType(b, typ)
		if ufsMode >= 0 {
			ufsbuilder.Permissions(b, ufsMode)
		}
		if content != nil {
			ufsbuilder.Data(b, content)
		}
		if blocksizes != nil {
			var tot uint64
			for _, s := range blocksizes {
				tot += s
			}
			ufsbuilder.FileSize(b, tot+uint64(len(content)))
			ufsbuilder.BlockSizes(b, blocksizes)
		}
	})
	if err != nil {
		panic(err)
	}
	return data.EncodeUnixFSData(n)
}

func dirEntry(name string, l ipld.Link) dagpb.PBLink {
	e, err := ufsbuilder.BuildUnixFSDirectoryEntry(name, 1, l)
	if err != nil {
		panic(err)
	}
	return e
}

// hostile name and target alphabets; SB is replaced by the sandbox path
var c17Names = []string{"a", "b", "c", "evil", "evil", "x", "unknown", "..", "../x", "../../victim/f", "../victim/new",
	"a/b", "a/keep", "evil/keep", "x/b", "sub/keep", "evil/x", "/abs", "./c", "", ".", "x/../..", "x/../../victim/f", "victim", "é", "a\\b", " ", "evil/../evil", "a//b", "sub", "sub/deep"}
var c17Targets = []string{"SB/victim/f", "SB/victim", "SB/victim/new", "SB/victim/newdir/", "../victim/f", "../victim", "../../victim/f", ".",
	"..", "a", "b", "/", "SB/out", "SB/out/a", "evil", "nonexistent", "../victim/new", "SB", "/nonexistent-root-dir/x", "sub", "./"}

// c17Target: half of the time a target that leaves the output directory towards something that
// exists (or can be created) outside
func (g *Gen) c17Target() string {
	if g.pick(2) == 0 {
		return []string{"SB/victim/f", "SB/victim/new", "../victim/f", "../victim/new", "SB/victim", "../victim", "SB/victim/d/g",
			"../out-old", "SB/out-old", "../out-old/keep", "../out2", "SB/out-old/sub"}[g.pick(12)]
	}
	return c17Targets[g.pick(len(c17Targets))]
}

// genEntry makes one directory entry's node; depth bounds nesting.
func (g *Gen) c17Node(d *ufsDag, sb string, depth int) ipld.Link {
	switch k := g.pick(17); {
	case k < 4: // raw leaf file
		return d.rawLeaf(g.bytes(g.pick(12)))
	case k < 6: // dag-pb file, inline data
		return d.pbNode(ufsData(data.Data_File, g.bytes(g.pick(12)), nil), nil)
	case k < 7: // chunked file, perhaps with a chunk that is not in the archive
		var ls []dagpb.PBLink
		var sizes []uint64
		n := 2 + g.pick(2)
		lose := -1
		if g.pick(2) == 0 {
			lose = g.pick(n)
		}
		for i := 0; i < n; i++ {
			b := g.bytes(1 + g.pick(6))
			l := d.rawLeaf(append(b, byte(i), byte(len(d.order)))) // distinct chunks
			if i == lose {
				d.missing[l.(cidlink.Link).Cid] = true
			}
			sizes = append(sizes, uint64(len(b)+2))
			ls = append(ls, dirEntry("", l))
		}
		return d.pbNode(ufsData(data.Data_File, nil, sizes), ls)
	case k < 11: // symlink
		t := strings.ReplaceAll(c17Targets[g.pick(len(c17Targets))], "SB", sb)
		return d.pbNode(ufsData(data.Data_Symlink, []byte(t), nil), nil)
	case k < 12: // entry whose block is absent
		l := d.rawLeaf(append(g.bytes(4), 0xAB, byte(len(d.order))))
		d.missing[l.(cidlink.Link).Cid] = true
		return l
	case k < 13: // undecodable / unknown kind
		if g.pick(3) != 0 {
			return d.rawLeaf(g.bytes(3))
		}
		if g.pick(2) == 0 {
			return d.pbNode(ufsData(data.Data_Metadata, nil, nil), nil)
		}
		return d.pbNode([]byte{0xff, 0xff, 0x01}, nil)
	default: // directory
		if depth <= 0 {
			return d.pbNode(ufsData(data.Data_Directory, nil, nil), nil)
		}
		return g.c17Dir(d, sb, depth-1)
	}
}

func (g *Gen) c17Dir(d *ufsDag, sb string, depth int) ipld.Link {
	n := g.pick(5)
	var entries []dagpb.PBLink
	for i := 0; i < n; i++ {
		name := c17Names[g.pick(len(c17Names))]
		if g.pick(4) != 0 {
			name = []string{"a", "b", "c", "x", "sub", "f1", "f2", "é", "evil"}[g.pick(9)]
		}
		entries = append(entries, dirEntry(name, g.c17Node(d, sb, depth)))
		// the classic: a symlink, then an entry of the same (cleaned) name
		if g.pick(5) == 0 {
			t := strings.ReplaceAll(g.c17Target(), "SB", sb)
			entries = append(entries[:len(entries)-1], dirEntry(name, d.pbNode(ufsData(data.Data_Symlink, []byte(t), nil), nil)))
			if g.pick(2) == 0 {
				entries = append(entries, dirEntry(name, d.rawLeaf(g.bytes(1+g.pick(6)))))
			} else {
				entries = append(entries, dirEntry(name, g.c17Node(d, sb, depth)))
			}
		}
	}
	if g.pick(5) == 0 && len(entries) > 0 { // HAMT-sharded
		l, _, err := ufsbuilder.BuildUnixFSShardedDirectory(8<<g.pick(3), multihash.MURMUR3X64_64, entries, &d.ls)
		if err == nil {
			return l
		}
	}
	return d.pbNode(ufsData(data.Data_Directory, nil, nil), entries)
}

// ---- the engine's trace: what extractDir is handed, with no file system involved ----

func hx(b []byte) string { return hex.EncodeToString(b) }

func traceUfsFile(ctx context.Context, ls *ipld.LinkSystem, n ipld.Node) (string, bool) {
	node, err := file.NewUnixFSFile(ctx, n, ls)
	if err != nil {
		return "", false
	}
	nlr, err := node.AsLargeBytes()
	if err != nil {
		return "", false
	}
	b, err := io.ReadAll(nlr)
	ok := "1"
	if err != nil {
		ok = "0"
	}
	return hx(b) + "." + ok, true
}

// traceDir mirrors the order of engine calls in lib.extractDir for a directory node.
func traceDir(ctx context.Context, ls *ipld.LinkSystem, n ipld.Node, evs *[]string) bool {
	mi := n.MapIterator()
	for !mi.Done() {
		key, val, err := mi.Next()
		if err != nil {
			if nf, ok := err.(interface{ NotFound() bool }); ok && nf.NotFound() {
				continue
			}
			*evs = append(*evs, "X")
			return false
		}
		ks, err := key.AsString()
		if err != nil {
			*evs = append(*evs, "X")
			return false
		}
		name := hx([]byte(ks))
		if val.Kind() != ipld.Kind_Link {
			*evs = append(*evs, "B"+name)
			return false
		}
		vl, _ := val.AsLink()
		dest, err := ls.Load(ipld.LinkContext{}, vl, basicnode.Prototype.Any)
		if err != nil {
			if nf, ok := err.(interface{ NotFound() bool }); ok && nf.NotFound() {
				*evs = append(*evs, "M"+name)
				continue
			}
			*evs = append(*evs, "B"+name)
			return false
		}
		if dest.Kind() == ipld.Kind_Bytes {
			f, ok := traceUfsFile(ctx, ls, dest)
			if !ok {
				*evs = append(*evs, "B"+name)
				return false
			}
			*evs = append(*evs, "F"+name+"."+f)
			if strings.HasSuffix(f, ".0") {
				return false
			}
			continue
		}
		pbb := dagpb.Type.PBNode.NewBuilder()
		if err := pbb.AssignNode(dest); err != nil {
			*evs = append(*evs, "B"+name)
			return false
		}
		pbnode := pbb.Build().(dagpb.PBNode)
		ufsData, err := pbnode.LookupByString("Data")
		if err != nil {
			*evs = append(*evs, "B"+name)
			return false
		}
		ufsBytes, err := ufsData.AsBytes()
		if err != nil {
			*evs = append(*evs, "B"+name)
			return false
		}
		ufsNode, err := data.DecodeUnixFSData(ufsBytes)
		if err != nil {
			*evs = append(*evs, "B"+name)
			return false
		}
		switch ufsNode.DataType.Int() {
		case data.Data_Directory, data.Data_HAMTShard:
			ufn, err := unixfsnode.Reify(ipld.LinkContext{}, pbnode, ls)
			if err != nil {
				*evs = append(*evs, "B"+name)
				return false
			}
			*evs = append(*evs, "E"+name)
			if ufn.Kind() != ipld.Kind_Map {
				*evs = append(*evs, "X") // ErrNotDir from a nested call is an error for the caller
				return false
			}
			if !traceDir(ctx, ls, ufn, evs) {
				return false
			}
			*evs = append(*evs, "L")
		case data.Data_File, data.Data_Raw:
			f, ok := traceUfsFile(ctx, ls, pbnode)
			if !ok {
				*evs = append(*evs, "B"+name)
				return false
			}
			*evs = append(*evs, "F"+name+"."+f)
			if strings.HasSuffix(f, ".0") {
				return false
			}
		case data.Data_Symlink:
			*evs = append(*evs, "S"+name+"."+hx(ufsNode.Data.Must().Bytes()))
		default:
			*evs = append(*evs, "B"+name)
			return false
		}
	}
	return true
}

// traceRoot mirrors lib.ExtractToDir's engine calls for one root.
func traceRoot(ctx context.Context, ls *ipld.LinkSystem, root cid.Cid) string {
	if root.Prefix().Codec == cid.Raw {
		return "raw"
	}
	pbn, err := ls.Load(ipld.LinkContext{}, cidlink.Link{Cid: root}, dagpb.Type.PBNode)
	if err != nil {
		return "fail"
	}
	pbnode := pbn.(dagpb.PBNode)
	ufn, err := unixfsnode.Reify(ipld.LinkContext{}, pbnode, ls)
	if err != nil {
		return "fail"
	}
	if ufn.Kind() != ipld.Kind_Map {
		ufsData, err := pbnode.LookupByString("Data")
		if err != nil {
			return "other!"
		}
		ufsBytes, err := ufsData.AsBytes()
		if err != nil {
			return "other!"
		}
		ufsNode, err := data.DecodeUnixFSData(ufsBytes)
		if err != nil {
			return "other!"
		}
		if ufsNode.DataType.Int() == data.Data_File || ufsNode.DataType.Int() == data.Data_Raw {
			f, ok := traceUfsFile(ctx, ls, pbnode)
			if !ok {
				return "other!"
			}
			return "file:" + f
		}
		return "other"
	}
	var evs []string
	traceDir(ctx, ls, ufn, &evs)
	return "dir:" + strings.Join(evs, ",")
}

// ---- sandbox snapshot ----

type fsEntry struct{ rel, kind, data string }

func snapshot(root string) []fsEntry {
	var out []fsEntry
	filepath.Walk(root, func(p string, fi os.FileInfo, err error) error {
		if err != nil || p == root {
			return nil
		}
		rel, _ := filepath.Rel(root, p)
		switch {
		case fi.Mode()&os.ModeSymlink != 0:
			t, _ := os.Readlink(p)
			out = append(out, fsEntry{rel, "l", t})
		case fi.IsDir():
			out = append(out, fsEntry{rel, "d", ""})
		default:
			b, _ := os.ReadFile(p)
			out = append(out, fsEntry{rel, "f", string(b)})
		}
		return nil
	})
	sort.Slice(out, func(i, j int) bool { return "/"+out[i].rel < "/"+out[j].rel })
	return out
}

// permSnapshot: permission bits of everything that is not a symlink (the bits of a link are not settable),
// as fsEntries so that the same outside filter applies.
func permSnapshot(root string) []fsEntry {
	var out []fsEntry
	filepath.Walk(root, func(p string, fi os.FileInfo, err error) error {
		if err != nil || p == root || fi.Mode()&os.ModeSymlink != 0 {
			return nil
		}
		rel, _ := filepath.Rel(root, p)
		out = append(out, fsEntry{rel, "m", fmt.Sprintf("%o", fi.Mode()&(os.ModePerm|os.ModeSetuid|os.ModeSetgid|os.ModeSticky))})
		return nil
	})
	sort.Slice(out, func(i, j int) bool { return "/"+out[i].rel < "/"+out[j].rel })
	return out
}

func entriesStr(es []fsEntry) string {
	if len(es) == 0 {
		return "-"
	}
	parts := make([]string, len(es))
	for i, e := range es {
		parts[i] = hx([]byte(e.rel)) + ":" + e.kind + ":" + hx([]byte(e.data))
	}
	return strings.Join(parts, ",")
}

// under reports whether rel path p lies at or below rel path root
func under(p, root string) bool { return p == root || strings.HasPrefix(p, root+"/") }

func famC17(g *Gen, o *Out, n int, thorough bool) {
	ctx := context.Background()
	base := tmpPath("c17")
	os.MkdirAll(base, 0o755)
	base, _ = filepath.EvalSymlinks(base)
	for c := 0; c < n; c++ {
		sb := filepath.Join(base, fmt.Sprintf("s%d", c))
		os.RemoveAll(sb)
		// every fourth archive carries UnixFS 1.5 permission bits on all its nodes (links included): whatever
		// the tool does with them, it does inside the output directory
		ufsMode = -1
		if c%4 == 3 {
			ufsMode = []int{0o777, 0, 0o600, 0o4755}[(c/4)%4]
		}
		os.MkdirAll(filepath.Join(sb, "victim", "d"), 0o755)
		os.WriteFile(filepath.Join(sb, "victim", "f"), []byte("precious"), 0o644)
		os.WriteFile(filepath.Join(sb, "victim", "d", "g"), []byte("also"), 0o644)
		// siblings whose names merely start with the output directory's name
		os.MkdirAll(filepath.Join(sb, "out-old", "sub"), 0o755)
		os.WriteFile(filepath.Join(sb, "out-old", "keep"), []byte("keep me"), 0o644)
		os.WriteFile(filepath.Join(sb, "out-old", "b"), []byte("keep b"), 0o644)
		os.WriteFile(filepath.Join(sb, "out2"), []byte("a file next door"), 0o644)
		outArg := filepath.Join(sb, "out")
		realOut := "out"
		switch g.pick(12) {
		case 0, 3: // the output directory is reached through a symlink
			os.MkdirAll(filepath.Join(sb, "real", "out"), 0o755)
			os.Symlink(filepath.Join(sb, "real", "out"), filepath.Join(sb, "out"))
			realOut = "real/out"
		case 1: // does not exist
		case 2: // is a regular file
			os.WriteFile(outArg, []byte("i am a file"), 0o644)
		default:
			os.MkdirAll(outArg, 0o755)
		}
		// pre-populate
		if fi, err := os.Stat(outArg); err == nil && fi.IsDir() && g.pick(2) == 0 {
			for i := 0; i < 1+g.pick(4); i++ {
				name := []string{"a", "b", "evil", "x", "unknown", "sub", "c"}[g.pick(7)]
				p := filepath.Join(sb, realOut, name)
				switch g.pick(4) {
				case 0:
					os.WriteFile(p, []byte("old"), 0o644)
				case 1:
					os.MkdirAll(p, 0o755)
				default:
					os.Symlink(strings.ReplaceAll(g.c17Target(), "SB", sb), p)
				}
			}
		}
		forcedP := ""
		if c%3 == 2 && c < 30 {
			// fixed corpus for the command-line pass: a link inside the output directory that leads to a
			// neighbour, and a -p path that runs through it to something the neighbour really has
			if fi, err := os.Lstat(outArg); err == nil && fi.IsDir() {
				k := (c / 3) % 4
				name := []string{"a", "evil", "sub", "x"}[k]
				tgt := []string{"../victim", filepath.Join(sb, "victim"), "../out-old", "../victim"}[k]
				os.Remove(filepath.Join(sb, realOut, name))
				if os.Symlink(tgt, filepath.Join(sb, realOut, name)) == nil {
					forcedP = name + "/" + []string{"d", "f", "sub", "d/g"}[k]
				}
			}
		}
		// the archive
		d := newUfsDag()
		nroots := 1
		if g.pick(4) == 0 {
			nroots = 2 + g.pick(2)
		}
		var roots []cid.Cid
		if c%3 != 2 && c < 54 {
			// fixed corpus for the in-process pass (35 combinations): a link (carried by the archive, or lying
			// in the output directory) towards a neighbour of the output directory — one whose name merely
			// starts with the output directory's name included — and entries whose names run through that
			// link. Extraction stops at the first refused entry, so the names rotate: one level through the
			// link, two levels with a missing middle, an existing file.
			idx := c - (c+1)/3
			k := idx % 7
			tgt := strings.ReplaceAll([]string{"../out-old", "SB/out-old", "../out2", "../victim", "SB/victim", "../out-old/sub", "../victim/d"}[k], "SB", sb)
			os.MkdirAll(filepath.Join(sb, realOut), 0o755) // the corpus wants an existing output directory
			if fi, err := os.Lstat(outArg); err != nil || !(fi.IsDir() || fi.Mode()&os.ModeSymlink != 0) {
				os.Remove(outArg)
				os.MkdirAll(outArg, 0o755)
				realOut = "out"
			}
			var es []dagpb.PBLink
			if idx%2 == 0 {
				es = append(es, dirEntry("a", d.pbNode(ufsData(data.Data_Symlink, []byte(tgt), nil), nil)))
			} else {
				os.RemoveAll(filepath.Join(sb, realOut, "a"))
				os.Symlink(tgt, filepath.Join(sb, realOut, "a"))
			}
			// (directory entries are visited in name order and extraction stops at the first refusal: one
			// name through the link per case)
			nm := []string{"a/keep", "a/0sub/new/x", "a/b", "a/0new/deep/y", "a/f"}[idx%5]
			es = append(es, dirEntry(nm, d.rawLeaf([]byte("NEW-"+nm))), dirEntry("zz", d.rawLeaf([]byte("after"))))
			roots = append(roots, d.pbNode(ufsData(data.Data_Directory, nil, nil), es).(cidlink.Link).Cid)
			nroots = 0
		}
		for i := 0; i < nroots; i++ {
			var l ipld.Link
			switch k := g.pick(10); {
			case k < 7:
				l = g.c17Dir(d, sb, 2)
			case k < 8:
				// a file root -> <out>/unknown; half of the time something already claims that name:
				// a symlink planted by an earlier directory root of the same archive, or lying in the
				// output directory
				if g.pick(2) == 0 {
					t := strings.ReplaceAll(g.c17Target(), "SB", sb)
					if g.pick(2) == 0 {
						planted := d.pbNode(ufsData(data.Data_Directory, nil, nil),
							[]dagpb.PBLink{dirEntry("unknown", d.pbNode(ufsData(data.Data_Symlink, []byte(t), nil), nil))})
						roots = append(roots, planted.(cidlink.Link).Cid)
					} else if fi, err := os.Stat(outArg); err == nil && fi.IsDir() {
						os.Symlink(t, filepath.Join(sb, realOut, "unknown"))
					}
				}
				l = d.pbNode(ufsData(data.Data_File, g.bytes(1+g.pick(10)), nil), nil)
			case k < 9:
				l = d.rawLeaf(g.bytes(5))
			default:
				l = d.pbNode(ufsData(data.Data_Symlink, []byte("x"), nil), nil)
				if g.pick(2) == 0 {
					d.missing[l.(cidlink.Link).Cid] = true
				}
			}
			roots = append(roots, l.(cidlink.Link).Cid)
		}
		// write the CAR (CARv1 or CARv2) without the missing blocks
		var carBuf memFile
		var wopts []carv2.Option
		if g.pick(2) == 0 {
			wopts = append(wopts, carv2.WriteAsCarV1(true))
		}
		w, err := carstorage.NewWritable(&carBuf, roots, wopts...)
		if err != nil {
			panic(err)
		}
		seen := map[cid.Cid]bool{}
		for _, k := range d.order {
			if d.missing[k] || seen[k] {
				continue
			}
			seen[k] = true
			b, _ := d.store.Get(ctx, cidlink.Link{Cid: k}.Binary())
			w.Put(ctx, string(k.Bytes()), b)
		}
		w.Finalize()
		carPath := filepath.Join(base, fmt.Sprintf("in%d.car", c))
		os.WriteFile(carPath, carBuf.b, 0o644)

		before := snapshot(sb)
		permsBefore := permSnapshot(sb)
		// the engine's trace, from the same archive through the same link system set-up as the tool
		cf, _ := os.Open(carPath)
		rstore, err := carstorage.OpenReadable(cf)
		if err != nil {
			panic(err)
		}
		ls := cidlink.DefaultLinkSystem()
		ls.TrustedStorage = true
		ls.SetReadStorage(rstore)
		var rootStrs []string
		for _, r := range rstore.Roots() {
			rootStrs = append(rootStrs, traceRoot(ctx, &ls, r))
		}
		// the tool: the library entry point in process (modelled event by event), or — every third case —
		// the built binary with its own argument handling, -p paths and error clean-up (containment only)
		var logb bytes.Buffer
		var xerr error
		useCli := c%3 == 2
		cliPath := ""
		if useCli {
			if forcedP == "" && g.pick(3) == 0 {
				// the output directory does not exist yet and is spelled through a link and "..": what the
				// user named is what the operating system resolves that to, nothing next to the link
				os.MkdirAll(filepath.Join(sb, "real2", "sub"), 0o755)
				os.Symlink(filepath.Join(sb, "real2", "sub"), filepath.Join(sb, "lnk"))
				outArg = filepath.Join(sb, "lnk") + "/../newout"
				before = snapshot(sb)
				permsBefore = permSnapshot(sb)
			}
			args := []string{"extract", "-f", carPath}
			if g.pick(2) == 0 {
				cliPath = []string{"a", "a/b", "evil", "evil/x", "sub/a", "b/c/d", "x", "a/d", "x/d/g"}[g.pick(9)]
			}
			if forcedP != "" {
				cliPath = forcedP
			}
			if cliPath != "" {
				args = append(args, "-p", cliPath)
			}
			_, _, xerr = runCar(nil, sb, append(args, outArg)...)
		} else {
			for _, r := range rstore.Roots() {
				if _, xerr = lib.ExtractToDir(ctx, &ls, r, outArg, []string{}, false, &logb); xerr != nil {
					break
				}
			}
		}
		cf.Close()
		after := snapshot(sb)
		// outside = everything in the sandbox that is not at or below the resolved output directory
		outside := "same"
		resolved := ""
		if rp, err := filepath.EvalSymlinks(outArg); err == nil {
			resolved, _ = filepath.Rel(sb, rp)
		}
		filter := func(es []fsEntry) []fsEntry {
			var r []fsEntry
			for _, e := range es {
				if resolved == "" || !under(e.rel, resolved) {
					r = append(r, e)
				}
			}
			return r
		}
		if rp0 := filter(before); entriesStr(rp0) != entriesStr(filter(after)) {
			outside = "changed"
		}
		if resolved == "" && entriesStr(before) != entriesStr(after) {
			outside = "changed"
		}
		// permission bits count as content of what is outside: same entries, same bits
		permsAfter := permSnapshot(sb)
		if resolved != "" && entriesStr(filter(permsBefore)) != entriesStr(filter(permsAfter)) {
			outside = "changed"
		}
		for _, e := range permsBefore { // whatever happened, put the bits back so that the sandbox can be removed
			var m uint32
			fmt.Sscanf(e.data, "%o", &m)
			os.Chmod(filepath.Join(sb, e.rel), os.FileMode(m))
		}
		res := "ok"
		if xerr != nil {
			res = "err"
		}
		line := fmt.Sprintf("extract sb=%s out=%s pre=%s roots=%s", hx([]byte(sb)), hx([]byte(outArg)), entriesStr(before), strings.Join(rootStrs, ";"))
		if useCli {
			o.Line(fmt.Sprintf("extractcli p=%s sb=%s out=%s pre=%s roots=%s", hx([]byte(cliPath)), hx([]byte(sb)), hx([]byte(outArg)), entriesStr(before), strings.Join(rootStrs, ";")),
				fmt.Sprintf("_r=%s outside=%s", res, outside))
			o.Count("cli/" + res + "/outside=" + outside)
		} else if strings.Contains(line, "other!") {
			o.Line(line, "skip")
		} else {
			o.Line(line, fmt.Sprintf("r=%s tree=%s outside=%s", res, entriesStr(after), outside))
		}
		o.Count(fmt.Sprintf("roots=%d/%s/outside=%s", nroots, res, outside))
		o.Count(fmt.Sprintf("created=%d", min(len(after)-len(before), 6)))
		os.RemoveAll(sb)
		os.Remove(carPath)
	}
	os.RemoveAll(base)
	if workDir != "" {
		os.RemoveAll(workDir)
	}
}
