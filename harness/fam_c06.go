package main

import (
	"bytes"
	"context"
	"fmt"
	"os"
	"strings"

	blocks "github.com/ipfs/go-block-format"
	"github.com/ipfs/go-cid"
	carv2 "github.com/ipld/go-car/v2"
	"github.com/ipld/go-car/v2/blockstore"
	"github.com/ipld/go-car/v2/index"
	"github.com/ipld/go-car/v2/storage"
	mh "github.com/multiformats/go-multihash"
)

type wev struct {
	trunc bool
	off   int64
	data  []byte
}

func traceStr(ws []wev) string {
	if len(ws) == 0 {
		return "-"
	}
	s := make([]string, len(ws))
	for i, w := range ws {
		if w.trunc {
			s[i] = fmt.Sprintf("t:%d", w.off)
		} else {
			s[i] = fmt.Sprintf("%d:%s", w.off, hexOr(w.data))
		}
	}
	return strings.Join(s, ",")
}

func applyTrace(base []byte, ws []wev) []byte {
	m := &memFile{b: append([]byte{}, base...)}
	for _, w := range ws {
		if w.trunc {
			m.Truncate(w.off)
		} else if len(w.data) > 0 {
			m.WriteAt(w.data, w.off)
		}
	}
	return m.b
}

// traceFile is a memFile that records every mutation (storage API path).
type traceFile struct {
	memFile
	ws []wev
}

func (t *traceFile) WriteAt(p []byte, off int64) (int, error) {
	t.ws = append(t.ws, wev{off: off, data: append([]byte{}, p...)})
	return t.memFile.WriteAt(p, off)
}
func (t *traceFile) Write(p []byte) (int, error) {
	t.ws = append(t.ws, wev{off: t.pos, data: append([]byte{}, p...)})
	return t.memFile.Write(p)
}
func (t *traceFile) Truncate(n int64) error {
	t.ws = append(t.ws, wev{trunc: true, off: n})
	return t.memFile.Truncate(n)
}

// runSession performs [open|reopen], puts, optional finalize on the real code and returns the trace.
func runSession(api string, wo wOpts, roots []cid.Cid, base []byte, puts []Blk, fin bool, seq int) (ws []wev, final []byte, ok bool) {
	ctx := context.Background()
	if api == "st" {
		tf := &traceFile{memFile: memFile{b: append([]byte{}, base...)}}
		var sc *storage.StorageCar
		var err error
		if len(base) == 0 {
			sc, err = storage.NewReadableWritable(tf, roots, wo.opts()...)
		} else {
			sc, err = storage.OpenReadableWritable(tf, roots, wo.opts()...)
		}
		if err != nil {
			return nil, nil, false
		}
		for _, b := range puts {
			sc.Put(ctx, string(b.C.Bytes()), b.D)
		}
		if fin {
			sc.Finalize()
		}
		return tf.ws, tf.b, true
	}
	p := tmpPath(fmt.Sprintf("c06-%d.car", seq))
	os.Remove(p)
	if len(base) > 0 {
		os.WriteFile(p, base, 0o644)
	}
	carv2.VerifSetWriteHook(func(kind string, off int64, b []byte) (int, error, bool) {
		if kind == "t" {
			ws = append(ws, wev{trunc: true, off: off})
		} else {
			ws = append(ws, wev{off: off, data: append([]byte{}, b...)})
		}
		return 0, nil, false
	})
	defer carv2.VerifSetWriteHook(nil)
	rw, err := blockstore.OpenReadWrite(p, roots, wo.opts()...)
	if err != nil {
		os.Remove(p)
		return nil, nil, false
	}
	for _, b := range puts {
		blk, _ := blocks.NewBlockWithCid(b.D, b.C)
		rw.Put(ctx, blk)
	}
	if fin {
		rw.Finalize()
	} else {
		rw.Discard()
	}
	final, _ = os.ReadFile(p)
	os.Remove(p)
	return ws, final, true
}

func sameKey(wo wOpts, a, b cid.Cid) bool {
	if wo.whole {
		return a.Equals(b)
	}
	return bytes.Equal(a.Hash(), b.Hash())
}

func idRule(wo wOpts, c cid.Cid) bool {
	return !wo.sid && c.Prefix().MhType == mh.IDENTITY
}

func sectionOf(b Blk) []byte {
	var buf bytes.Buffer
	l := uint64(len(b.C.Bytes()) + len(b.D))
	for l >= 0x80 {
		buf.WriteByte(byte(l) | 0x80)
		l >>= 7
	}
	buf.WriteByte(byte(l))
	buf.Write(b.C.Bytes())
	buf.Write(b.D)
	return buf.Bytes()
}

// reopenVerdict opens the crash image with the real library and evaluates the property's predicate.
func reopenVerdict(api string, wo wOpts, roots []cid.Cid, img []byte, acked, attempted, extra []Blk, seq int) string {
	ctx := context.Background()
	var has func(c cid.Cid) (bool, error)
	var get func(c cid.Cid) ([]byte, error)
	var put func(b Blk) error
	var finalize func() error
	var idx index.Index
	var fileNow func() []byte
	var openErr error
	base := 0
	if !wo.v1 {
		base = 51 + int(wo.dp)
	}
	if api == "st" {
		mf := &memFile{b: append([]byte{}, img...)}
		sc, err := storage.OpenReadableWritable(mf, roots, wo.opts()...)
		openErr = err
		fileNow = func() []byte { return mf.b }
		if err == nil {
			has = func(c cid.Cid) (bool, error) { return sc.Has(ctx, string(c.Bytes())) }
			get = func(c cid.Cid) ([]byte, error) { return sc.Get(ctx, string(c.Bytes())) }
			put = func(b Blk) error { return sc.Put(ctx, string(b.C.Bytes()), b.D) }
			finalize, idx = sc.Finalize, sc.Index()
		}
	} else {
		p := tmpPath(fmt.Sprintf("c06-img-%d.car", seq))
		os.WriteFile(p, img, 0o644)
		defer os.Remove(p)
		rw, err := blockstore.OpenReadWrite(p, roots, wo.opts()...)
		openErr = err
		fileNow = func() []byte { b, _ := os.ReadFile(p); return b }
		if err == nil {
			defer rw.Discard()
			has = func(c cid.Cid) (bool, error) { return rw.Has(ctx, c) }
			get = func(c cid.Cid) ([]byte, error) {
				b, err := rw.Get(ctx, c)
				if err != nil {
					return nil, err
				}
				return b.RawData(), nil
			}
			put = func(b Blk) error { blk, _ := blocks.NewBlockWithCid(b.D, b.C); return rw.Put(ctx, blk) }
			finalize, idx = rw.Finalize, rw.Index()
		}
	}
	if openErr != nil {
		f := fileNow()
		okAll := true
		for _, b := range acked {
			if idRule(wo, b.C) {
				continue
			}
			// a put acknowledged as "already stored" lives in the section of the block that carries its key
			found := false
			for _, a := range attempted {
				if sameKey(wo, a.C, b.C) && bytes.Equal(a.D, b.D) && base <= len(f) && bytes.Contains(f[base:], sectionOf(a)) {
					found = true
				}
			}
			if !found {
				okAll = false
			}
		}
		return fmt.Sprintf("open=err safe=%d", b2i(okAll))
	}
	hasOK := true
	for _, b := range acked {
		h, err := has(b.C)
		d, err2 := get(b.C)
		if err != nil || err2 != nil || !h {
			hasOK = false
			continue
		}
		good := bytes.Equal(d, b.D)
		for _, a := range attempted {
			if sameKey(wo, a.C, b.C) && bytes.Equal(a.D, d) {
				good = true
			}
		}
		if !good {
			hasOK = false
		}
	}
	only := true
	if ii, ok := idx.(*index.InsertionIndex); ok {
		ii.ForEachCid(func(c cid.Cid, _ uint64) error {
			found := false
			for _, a := range attempted {
				if a.C.Equals(c) {
					found = true
				}
			}
			if !found {
				only = false
			}
			return nil
		})
	}
	for _, b := range extra {
		put(b)
	}
	finalOK := finalize() == nil
	if finalOK {
		f := fileNow()
		br, err := carv2.NewBlockReader(bytes.NewReader(f))
		if err != nil {
			finalOK = false
		} else {
			got, err := drain(br)
			if classify(err) != "eof" {
				finalOK = false
			}
			all := append(append([]Blk{}, attempted...), extra...)
			for _, b := range append(append([]Blk{}, acked...), extra...) {
				if idRule(wo, b.C) {
					continue
				}
				found := false
				for _, y := range got {
					if sameKey(wo, y.C, b.C) {
						if bytes.Equal(y.D, b.D) {
							found = true
						}
						for _, a := range attempted {
							if a.C.Equals(y.C) && bytes.Equal(a.D, y.D) {
								found = true
							}
						}
					}
				}
				if !found {
					finalOK = false
				}
			}
			for _, y := range got {
				found := false
				for _, a := range all {
					if a.C.Equals(y.C) && bytes.Equal(a.D, y.D) {
						found = true
					}
				}
				if !found {
					finalOK = false
				}
			}
		}
	}
	return fmt.Sprintf("open=ok safe=%d has=%d only=%d final=%d", b2i(hasOK && only && finalOK), b2i(hasOK), b2i(only), b2i(finalOK))
}

// crashPoints emits one script line per crash image of the traced session.
func crashPoints(g *Gen, o *Out, api string, wo wOpts, roots []cid.Cid, base []byte, prior, puts, extra []Blk, fin bool, ws []wev, thorough bool, seq *int) {
	desc := fmt.Sprintf("crash api=%s %s roots=%s base=%s prior=%s puts=%s fin=%d trace=%s extra=%s", api, wo, rootsArg(roots),
		hexOr(base), blocksStr(prior), blocksStr(puts), b2i(fin), traceStr(ws), blocksStr(extra))
	for k := 0; k <= len(ws); k++ {
		js := []int{0}
		if k < len(ws) && !ws[k].trunc {
			l := len(ws[k].data)
			if l <= 24 || thorough {
				for j := 1; j < l; j++ {
					js = append(js, j)
				}
			} else {
				js = append(js, 1, l/2, l-1, 1+g.pick(l-1))
			}
		}
		for _, j := range js {
			part := ws[:k:k]
			if j > 0 {
				part = append(part, wev{off: ws[k].off, data: ws[k].data[:j]})
			}
			img := applyTrace(base, part)
			if len(img) == 0 {
				continue
			}
			acked := append([]Blk{}, prior...)
			acked = append(acked, ackedAfter(wo, base, roots, api, puts, ws, k)...)
			*seq++
			res := reopenVerdict(api, wo, roots, img, acked, append(append([]Blk{}, prior...), puts...), extra, *seq)
			o.Line(fmt.Sprintf("%s k=%d j=%d", desc, k, j), "trace=ok "+res)
			o.Count(fmt.Sprintf("%s/%s", api, strings.Fields(res)[0]))
		}
	}
}

func famC06(g *Gen, o *Out, n int, thorough bool) {
	seq := 0
	// corpus: the construction behind known finding C06/crash-after-index-before-header (D5): one
	// 989-byte identity block with StoreIdentityCIDs gives an index of exactly 1027 bytes that
	// parses as one bogus section when the header is still zero.
	for _, api := range []string{"bs", "st"} {
		wo := wOpts{codec: "mh", sid: true, mcs: 4096}
		d := bytes.Repeat([]byte{0x5a}, 989)
		h, _ := mh.Sum(d, mh.IDENTITY, -1)
		blk := Blk{cid.NewCidV1(cid.Raw, h), d}
		ex := g.BlockWith([]byte("extra"))
		o.HashBlocks([]Blk{ex})
		seq++
		ws, _, ok := runSession(api, wo, nil, nil, []Blk{blk}, true, seq)
		if ok {
			crashPoints(g, o, api, wo, nil, nil, nil, []Blk{blk}, []Blk{ex}, true, ws, false, &seq)
		}
	}
	for c := 0; c < n; c++ {
		wo := g.wOpts()
		wo.mcs = 2048
		// every fourth session reopens with ZeroLengthSectionAsEOF (a resumed scan then stops at the first
		// zero byte: the hole that index padding leaves after the payload), half of those with index padding
		wo.z = c%4 == 1
		if wo.z && c%8 == 1 {
			wo.ip = uint64(3 + g.pick(80))
		}
		if g.pick(3) != 0 {
			wo.dup = false
		}
		api := []string{"bs", "st"}[g.pick(2)]
		nb := 1 + g.pick(3)
		var bs []Blk
		for i := 0; i < nb+3; i++ {
			d := g.bytes(1 + g.pick(40))
			if g.pick(5) == 0 {
				d = g.bytes(130 + g.pick(20))
			}
			bs = append(bs, g.BlockWith(d))
		}
		if g.pick(4) == 0 {
			// tiny sections (identity CID, 0-3 bytes of data, stored): shorter than any read-ahead a
			// resuming scan might use, as the last acknowledged section and in the middle
			wo.sid = true
			for _, at := range []int{nb, 1 + g.pick(nb)} {
				d := g.bytes(g.pick(4))
				ih, _ := mh.Sum(d, mh.IDENTITY, -1)
				bs[at] = Blk{cid.NewCidV1(cid.Raw, ih), d}
			}
		}
		if c%3 == 2 {
			// two blocks that share a multihash under different CIDs (the same bytes as raw and as dag-cbor):
			// with UseWholeCIDs both are stored and both must be there again after a crash and a reopen
			bs[2] = Blk{cid.NewCidV1(cid.DagCBOR, bs[1].C.Hash()), bs[1].D}
			if bs[1].C.Prefix().Codec == cid.DagCBOR {
				bs[2] = Blk{cid.NewCidV1(cid.Raw, bs[1].C.Hash()), bs[1].D}
			}
			wo.whole = c%6 == 2 || wo.whole
		}
		o.HashBlocks(bs)
		roots := g.Roots(bs[:1])
		var base []byte
		var prior []Blk
		if g.pick(3) == 0 { // the session under test itself starts by resuming
			seq++
			_, f, ok := runSession(api, wo, roots, nil, bs[:1], g.pick(2) == 0, seq)
			if ok {
				base, prior = f, bs[:1]
				if idRule(wo, bs[0].C) {
					prior = nil
				}
			}
		}
		puts := bs[1 : 1+nb]
		extra := bs[1+nb : 2+nb]
		fin := g.pick(3) != 0
		seq++
		ws, _, ok := runSession(api, wo, roots, base, puts, fin, seq)
		if !ok {
			continue
		}
		crashPoints(g, o, api, wo, roots, base, prior, puts, extra, fin, ws, thorough, &seq)
	}
	if workDir != "" {
		os.RemoveAll(workDir)
	}
}

// ackedAfter: the puts whose writes are all among the first k events. Each stored put issues
// exactly three writes (length, CID, data) after the session's opening events; skipped puts none.
func ackedAfter(wo wOpts, base []byte, roots []cid.Cid, api string, puts []Blk, ws []wev, k int) []Blk {
	// locate each put's section in the trace by matching its CID write
	var out []Blk
	pos := 0
	for _, b := range puts {
		found := -1
		for i := pos; i+1 < len(ws); i++ {
			if !ws[i].trunc && bytes.Equal(ws[i].data, b.C.Bytes()) && i+1 < len(ws) && bytes.Equal(ws[i+1].data, b.D) {
				found = i + 1
				break
			}
		}
		if found < 0 {
			// skipped (identity rule / de-duplicated): acknowledged as soon as it returned, i.e. with its predecessor
			if idRule(wo, b.C) {
				continue
			}
			if pos <= k {
				out = append(out, b)
			}
			continue
		}
		pos = found + 1
		if found+1 <= k {
			out = append(out, b)
		}
	}
	return out
}
