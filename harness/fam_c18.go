package main

import (
	"bytes"
	"context"
	"fmt"
	"io"
	"os"
	"os/exec"
	"path"
	"path/filepath"
	"strings"

	"github.com/ipfs/go-cid"
	"github.com/ipfs/go-unixfsnode/data/builder"
	carv2 "github.com/ipld/go-car/v2"
	carstorage "github.com/ipld/go-car/v2/storage"
	dagpb "github.com/ipld/go-codec-dagpb"
	"github.com/ipld/go-ipld-prime/datamodel"
	"github.com/ipld/go-ipld-prime/linking"
	cidlink "github.com/ipld/go-ipld-prime/linking/cid"
	"github.com/ipld/go-ipld-prime/storage/memstore"
	"github.com/multiformats/go-multicodec"
	"github.com/multiformats/go-multihash"
)

// carBin is the CLI built from /repo's working tree next to the harness binary.
func carBin() string {
	if p := os.Getenv("VERIF_CAR_BIN"); p != "" {
		return p
	}
	return filepath.Join(filepath.Dir(os.Args[0]), "car")
}

func runCar(stdin []byte, dir string, args ...string) (string, string, error) {
	cmd := exec.Command(carBin(), args...)
	cmd.Dir = dir
	if stdin != nil {
		cmd.Stdin = bytes.NewReader(stdin)
	}
	var so, se bytes.Buffer
	cmd.Stdout, cmd.Stderr = &so, &se
	err := cmd.Run()
	return so.String(), se.String(), err
}

var c18Names = []string{"a", "b", "c.txt", "data", "with space", "é", "日本", "x-y_z", "UPPER", "a.b.c", "~tmp", "#h", "$v", "d1", "d2", "...", ".hidden", "-dash"}

// genTree fills dir with a random tree; returns nothing (the tree is read back by snapshot()).
func (g *Gen) genTree(dir string, depth int, big *int, thorough bool) {
	os.MkdirAll(dir, 0o755)
	n := g.pick(5)
	used := map[string]bool{}
	for i := 0; i < n; i++ {
		name := c18Names[g.pick(len(c18Names))]
		if used[name] {
			continue
		}
		used[name] = true
		p := filepath.Join(dir, name)
		switch k := g.pick(10); {
		case k < 5:
			sz := []int{0, 1, 7, 100, 1000, 5000}[g.pick(6)]
			if *big > 0 && g.pick(6) == 0 {
				*big--
				sz = 262144 + g.pick(300000) // spans several chunks
				if thorough && g.pick(2) == 0 {
					sz = 1<<20 + g.pick(200000)
				}
			}
			os.WriteFile(p, g.bytes(sz), 0o644)
		case k < 7:
			// targets are data: they must come back verbatim, clean or not
			t := []string{"a", "../b", "/etc/hostname", "nonexistent", ".", "..", "d1/x", "with space", "é",
				"./a", "a/", "a//b", "x/../y", "../", "./", "/abs//x/", "a/./b", " "}[g.pick(18)]
			os.Symlink(t, p)
		default:
			if depth > 0 {
				g.genTree(p, depth-1, big, thorough)
			} else {
				os.MkdirAll(p, 0o755)
			}
		}
	}
}

// engineBlocks replays cmd/car/create.go's writeFiles with the same go-unixfsnode calls and records
// every block in put order, plus the root.
func engineBlocks(noWrap bool, paths []string) ([]Blk, cid.Cid, error) {
	store := &memstore.Store{}
	ls := cidlink.DefaultLinkSystem()
	ls.TrustedStorage = true
	ls.SetReadStorage(store)
	var order []Blk
	ls.StorageWriteOpener = func(_ linking.LinkContext) (io.Writer, linking.BlockWriteCommitter, error) {
		buf := bytes.NewBuffer(nil)
		return buf, func(l datamodel.Link) error {
			c := l.(cidlink.Link).Cid
			b := append([]byte{}, buf.Bytes()...)
			order = append(order, Blk{c, b})
			return store.Put(context.Background(), cidlink.Link{Cid: c}.Binary(), b)
		}, nil
	}
	topLevel := make([]dagpb.PBLink, 0, len(paths))
	for _, p := range paths {
		l, size, err := builder.BuildUnixFSRecursive(p, &ls)
		if err != nil {
			return nil, cid.Undef, err
		}
		if noWrap {
			return order, l.(cidlink.Link).Cid, nil
		}
		entry, err := builder.BuildUnixFSDirectoryEntry(path.Base(p), int64(size), l)
		if err != nil {
			return nil, cid.Undef, err
		}
		topLevel = append(topLevel, entry)
	}
	root, _, err := builder.BuildUnixFSDirectory(topLevel, &ls)
	if err != nil {
		return nil, cid.Undef, err
	}
	return order, root.(cidlink.Link).Cid, nil
}

func famC18(g *Gen, o *Out, n int, thorough bool) {
	ctx := context.Background()
	base := tmpPath("c18")
	os.MkdirAll(base, 0o755)
	base, _ = filepath.EvalSymlinks(base)
	// the placeholder root of cmd/car/create.go
	h, _ := multihash.Sum([]byte{}, multihash.SHA2_256, -1)
	proxy := cid.NewCidV1(uint64(multicodec.DagPb), h)
	for c := 0; c < n; c++ {
		sb := filepath.Join(base, fmt.Sprintf("s%d", c))
		os.RemoveAll(sb)
		src := filepath.Join(sb, "src")
		big := 0
		if g.pick(8) == 0 {
			big = 1
		}
		var tops []string
		ntop := 1
		noWrap := g.pick(3) == 0
		if !noWrap && g.pick(3) == 0 {
			ntop = 2 + g.pick(2)
		}
		if c == 0 { // fixed: the packed directory's own entries at the top of the DAG
			noWrap, ntop = true, 1
		}
		for i := 0; i < ntop; i++ {
			name := []string{"T", "tree two", "ü3"}[i]
			if c == 1 && i == 0 {
				name = "..snapshot" // fixed: a top-level name that merely begins with two dots
			}
			p := filepath.Join(src, name)
			if !noWrap && i > 0 && g.pick(2) == 0 {
				os.MkdirAll(src, 0o755)
				os.WriteFile(p, g.bytes(g.pick(300)), 0o644) // a plain file argument
			} else {
				g.genTree(p, 2, &big, thorough)
			}
			tops = append(tops, p)
		}
		if c < 2 {
			// names that begin with dots without being "." or ".." (ConfigMap volumes, dot files)
			os.WriteFile(filepath.Join(tops[0], "..data"), []byte("dot-dot-data"), 0o644)
			os.MkdirAll(filepath.Join(tops[0], "..2024_05_17", "inner"), 0o755)
			os.WriteFile(filepath.Join(tops[0], "..2024_05_17", "inner", "f"), []byte("x"), 0o644)
			os.WriteFile(filepath.Join(tops[0], ".hidden-too"), nil, 0o644)
			os.Symlink("..data", filepath.Join(tops[0], "..link"))
			// content that is mostly or wholly zero, in sizes that are whole multiples of common copy buffers
			// (disk images, preallocated files): a trailing zero run is content, not a hole to skip
			img := append(g.bytes(65536), make([]byte, 32768)...)
			os.WriteFile(filepath.Join(tops[0], "disk.img"), img, 0o644)
			os.WriteFile(filepath.Join(tops[0], "prealloc.dat"), make([]byte, 65536), 0o644)
			os.WriteFile(filepath.Join(tops[0], "zeros-then-byte"), append(make([]byte, 40000), 1), 0o644)
			// the same content more than once: whole files that are copies of each other (the archive stores
			// the block once, the tree names it twice), and a file whose chunks repeat (600 KiB of zeros)
			dup := g.bytes(20000)
			os.MkdirAll(filepath.Join(tops[0], "copies", "deeper"), 0o755)
			os.WriteFile(filepath.Join(tops[0], "copies", "a.bin"), dup, 0o644)
			os.WriteFile(filepath.Join(tops[0], "copies", "deeper", "b.bin"), dup, 0o644)
			os.WriteFile(filepath.Join(tops[0], "copies", "LICENSE"), []byte("same small text"), 0o644)
			os.WriteFile(filepath.Join(tops[0], "copies", "deeper", "LICENSE"), []byte("same small text"), 0o644)
			os.WriteFile(filepath.Join(tops[0], "sparse.img"), make([]byte, 600<<10), 0o644)
		}
		if thorough && c == 7 { // a directory wide enough to be HAMT-sharded by the builder
			wide := filepath.Join(tops[0], "wide")
			os.MkdirAll(wide, 0o755)
			for i := 0; i < 4500; i++ {
				os.WriteFile(filepath.Join(wide, fmt.Sprintf("file-with-a-rather-long-name-to-fill-the-directory-node-%05d", i)), []byte{byte(i)}, 0o644)
			}
		}
		ver := 1 + g.pick(2)
		carPath := filepath.Join(sb, "x.car")
		if g.pick(3) == 0 {
			os.WriteFile(carPath, nil, 0o644) // an output path that exists already, empty (mktemp, touch)
		}
		args := []string{"create", fmt.Sprintf("--version=%d", ver), "--file=" + carPath}
		if noWrap {
			args = append(args, "--no-wrap")
		}
		// the same sources as a user may spell them: absolute, relative to the working directory, with a
		// "./" in front, with the trailing slash that tab completion leaves on a directory
		for _, tp := range tops {
			sp := tp
			st, serr := os.Lstat(tp)
			isDir := serr == nil && st.IsDir()
			switch g.pick(5) {
			case 1:
				if rel, err := filepath.Rel(sb, tp); err == nil {
					sp = rel
				}
			case 2:
				if rel, err := filepath.Rel(sb, tp); err == nil {
					sp = "./" + rel
				}
			case 3:
				if isDir {
					sp = tp + "/"
				}
			case 4:
				if rel, err := filepath.Rel(sb, tp); err == nil && isDir {
					sp = rel + "/"
				}
			}
			args = append(args, sp)
		}
		_, cse, cerr := runCar(nil, sb, args...)
		// the engine, in process
		blocks, eroot, eerr := engineBlocks(noWrap, tops)
		if cerr != nil || eerr != nil {
			o.Line(fmt.Sprintf("open api=bs dp=0 ip=0 codec=mh v1=%d sid=0 dup=0 whole=0 mcs=2048 z=0 roots=%x", b2i(ver == 1), proxy.Bytes()),
				fmt.Sprintf("r=create-failed:%s:%v", strings.ReplaceAll(strings.TrimSpace(cse), " ", "_"), eerr))
			o.Count("create-failed")
			os.RemoveAll(sb)
			continue
		}
		file, _ := os.ReadFile(carPath)
		// go-unixfsnode serialises HAMT shards in Go map order: the SET of blocks is a function of the
		// tree, their order is not. When the in-process replay and the binary differ only in order,
		// the binary's own section order is taken as the recorded engine sequence.
		if fb, err := carv2.NewBlockReader(bytes.NewReader(file)); err == nil {
			var inFile []Blk
			for {
				b, err := fb.Next()
				if err != nil {
					break
				}
				inFile = append(inFile, Blk{b.Cid(), b.RawData()})
			}
			count := func(bs []Blk) map[string]int {
				m := map[string]int{}
				for _, b := range bs {
					m[b.C.KeyString()+string(b.D)] = 1 // the store de-duplicates
				}
				return m
			}
			a, b2 := count(blocks), count(inFile)
			same := len(a) == len(b2)
			for k := range a {
				if b2[k] == 0 {
					same = false
				}
			}
			if same {
				if len(inFile) != len(blocks) || func() bool {
					for i := range inFile {
						if !inFile[i].C.Equals(blocks[i].C) {
							return true
						}
					}
					return false
				}() {
					o.Count("engine-order-differs")
				}
				blocks = inFile
			}
		}
		// (1) the archive: model session with the proxy root, the engine's puts, finalize, replace roots
		wo := wOpts{codec: "mh", v1: ver == 1, mcs: 2048}
		o.HashBlocks(blocks)
		o.Line(fmt.Sprintf("open api=bs %s roots=%x", wo, proxy.Bytes()), "r=ok")
		for _, b := range blocks {
			o.Line(fmt.Sprintf("put c=%x d=%s", b.C.Bytes(), hexOr(b.D)), "r=ok")
		}
		o.Line("finalize", "r=ok")
		o.Line(fmt.Sprintf("reproot roots=%x", eroot.Bytes()), "r=ok")
		o.Line("file", fmt.Sprintf("file=%x", file))
		// (2) the root the tool prints is the archive's single root and the engine's root
		rso, _, rerr := runCar(nil, sb, "root", carPath)
		br, berr := carv2.NewBlockReader(bytes.NewReader(file))
		hdrRoots := "err"
		if berr == nil {
			hdrRoots = cidsStr(br.Roots)
		}
		printed := strings.TrimSpace(rso)
		if pc, err := cid.Decode(printed); err == nil {
			printed = fmt.Sprintf("%x", pc.Bytes())
		}
		o.Line(fmt.Sprintf("root want=%x", eroot.Bytes()), fmt.Sprintf("printed=%s header=%s", printed+okOrErrSuffix(rerr), hdrRoots))
		// (3) extraction into an empty directory, from the file or from stdin
		modes := []bool{g.pick(2) == 0}
		if c < 2 {
			modes = []bool{false, true} // the fixed trees are extracted both ways
		}
		for mi, fromStdin := range modes {
		xsb := filepath.Join(sb, fmt.Sprintf("x%d", mi))
		out := filepath.Join(xsb, "out")
		os.MkdirAll(out, 0o755)
		before := snapshot(xsb)
		var xse string
		var xerr error
		if fromStdin {
			_, xse, xerr = runCar(file, sb, "extract", out)
		} else {
			_, xse, xerr = runCar(nil, sb, "extract", "--file="+carPath, out)
		}
		res := "ok"
		if xerr != nil && !strings.Contains(xse, "no files extracted") {
			res = "err"
		}
		after := snapshot(xsb)
		// what must be there: the source tree(s), below out/ (wrapped: under their base names)
		var want []fsEntry
		want = append(want, fsEntry{"out", "d", ""})
		if noWrap {
			for _, e := range snapshot(tops[0]) {
				want = append(want, fsEntry{"out/" + e.rel, e.kind, e.data})
			}
		} else {
			for _, e := range snapshot(src) {
				want = append(want, fsEntry{"out/" + e.rel, e.kind, e.data})
			}
		}
		// the trace the engine yields for this archive
		rstore, rerr2 := carstorage.OpenReadable(bytes.NewReader(file))
		rootStrs := []string{"fail"}
		if rerr2 == nil {
			ls := cidlink.DefaultLinkSystem()
			ls.TrustedStorage = true
			ls.SetReadStorage(rstore)
			rootStrs = nil
			for _, r := range rstore.Roots() {
				rootStrs = append(rootStrs, traceRoot(ctx, &ls, r))
			}
		}
		outside := "same"
		line := fmt.Sprintf("extract sb=%s out=%s pre=%s want=%s roots=%s", hx([]byte(xsb)), hx([]byte(out)), entriesStr(before), entriesStr(want), strings.Join(rootStrs, ";"))
		o.Line(line, fmt.Sprintf("r=%s tree=%s outside=%s", res, entriesStr(after), outside))
		o.Count(fmt.Sprintf("v%d/nowrap=%d/stdin=%d/tops=%d/%s", ver, b2i(noWrap), b2i(fromStdin), ntop, res))
		o.Count(fmt.Sprintf("entries=%d", min(len(want)/5*5, 30)))
		}
		os.RemoveAll(sb)
	}
	os.RemoveAll(base)
	if workDir != "" {
		os.RemoveAll(workDir)
	}
}

func okOrErrSuffix(err error) string {
	if err != nil {
		return "!err"
	}
	return ""
}
