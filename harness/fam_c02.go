package main

import (
	"encoding/hex"
	"fmt"

	"github.com/ipfs/go-cid"
	carv2 "github.com/ipld/go-car/v2"
	mh "github.com/multiformats/go-multihash"
)

var scanReaders = []string{"br-seek", "br-plain", "v1"}

// skipping is scanning too: the same truncations through pure SkipNext iterations
var skipReaders = []string{"sk-seek", "sk-plain"}

// the root module's reader and its two loaders (store without / with PutMany); they take no options
var rootReaders = []string{"root", "rootload", "rootloadfast"}

// refSections walks `input` with a tolerant, go-car-independent parser and reports (code, data)
// of every section it can delimit, so that hash lines can be emitted for the model.
func refSections(input []byte, visit func(code uint64, data []byte)) {
	uv := func(b []byte) (uint64, int) {
		var x uint64
		var s uint
		for i, c := range b {
			if i > 9 {
				return 0, -1
			}
			if c < 0x80 {
				return x | uint64(c)<<s, i + 1
			}
			x |= uint64(c&0x7f) << s
			s += 7
		}
		return 0, -1
	}
	walk := func(p []byte) {
		l, n := uv(p)
		if n < 0 || uint64(len(p)-n) < l {
			return
		}
		p = p[n+int(l):]
		for len(p) > 0 {
			l, n := uv(p)
			if n < 0 || l == 0 {
				return
			}
			short := uint64(len(p)-n) < l
			if short { // a cut section: its hash function still matters (known or not), and what is left of its data
				l = uint64(len(p) - n)
			}
			sec := p[n : n+int(l)]
			p = p[n+int(l):]
			// cid prefix
			if len(sec) >= 34 && sec[0] == 0x12 && sec[1] == 0x20 {
				visit(0x12, sec[34:])
				continue
			}
			off := 0
			var code uint64
			ok := true
			for i := 0; i < 4; i++ {
				v, k := uv(sec[off:])
				if k < 0 {
					ok = false
					break
				}
				off += k
				if i == 2 {
					code = v
				}
				if i == 3 {
					if uint64(len(sec)-off) < v {
						ok = false
					} else {
						off += int(v)
					}
				}
			}
			if ok {
				visit(code, sec[off:])
			}
		}
	}
	walk(input)
	// CARv2: also walk the announced window and the bytes after a minimal header
	if len(input) >= 51 {
		dOff := leU64(input[27:35])
		dSize := leU64(input[35:43])
		if dOff < uint64(len(input)) {
			end := dOff + dSize
			if end > uint64(len(input)) || end < dOff {
				end = uint64(len(input))
			}
			walk(input[dOff:end])
		}
	}
}

func leU64(b []byte) uint64 {
	var x uint64
	for i := 7; i >= 0; i-- {
		x = x<<8 | uint64(b[i])
	}
	return x
}

// genArchive produces a valid archive through the real writers, and its description.
// corpusArchives: how many of the fixed corpus archives genArchive has handed out in this process
var corpusArchives int

// boundaryRoot: an identity CID of exactly L bytes (L = 23, 255: the byte string holding it is 24 / 256
// long, a CBOR head boundary of the header encoding)
func (g *Gen) boundaryRoot(L int) cid.Cid {
	dl := L - 4
	if dl >= 128 {
		dl = L - 5
	}
	ih, _ := mh.Sum(g.bytes(dl), mh.IDENTITY, -1)
	return cid.NewCidV1(cid.Raw, ih)
}

func genArchive(g *Gen, maxBlocks int) (roots string, bs []Blk, ver int, dp uint64, arch []byte, payloadEnd int) {
	if corpusArchives == 4 || corpusArchives == 5 {
		// … and two archives without any block: a CARv1 that is its header, a CARv2 with an (empty) index
		k := corpusArchives
		corpusArchives++
		r := []cid.Cid{g.Block().C}
		roots = rootsArg(r)
		if k == 4 {
			arch = writeAll(r, nil, true)
			return roots, nil, 1, 0, arch, len(arch)
		}
		arch = writeAll(r, nil, false)
		payloadEnd = int(leU64(arch[27:35]) + leU64(arch[35:43]))
		return roots, nil, 2, 0, arch, payloadEnd
	}
	if corpusArchives < 4 {
		// the first four archives of every family that uses genArchive are a fixed corpus: the edge
		// block list under edge root lists (a repeated root with every root present; roots whose length
		// sits on a CBOR head boundary), as CARv1 and as CARv2 with and without data padding
		k := corpusArchives
		corpusArchives++
		bs = g.EdgeBlocks()
		var r []cid.Cid
		switch k {
		case 0, 2:
			r = []cid.Cid{bs[0].C, bs[0].C, bs[4].C}
		default:
			r = []cid.Cid{bs[0].C, g.boundaryRoot(23), g.boundaryRoot(255)}
		}
		roots = rootsArg(r)
		if k < 2 {
			arch = writeAll(r, bs, true)
			return roots, bs, 1, 0, arch, len(arch)
		}
		dp = []uint64{13, 0}[k-2]
		arch = writeAll(r, bs, false, carv2.UseDataPadding(dp))
		payloadEnd = int(leU64(arch[27:35]) + leU64(arch[35:43]))
		return roots, bs, 2, dp, arch, payloadEnd
	}
	bs = g.Blocks(maxBlocks)
	r := g.Roots(bs)
	roots = rootsArg(r)
	if g.pick(2) == 0 {
		arch = writeAll(r, bs, true)
		return roots, bs, 1, 0, arch, len(arch)
	}
	dp = []uint64{0, 0, 1, 7, 64, 4097}[g.pick(6)]
	arch = writeAll(r, bs, false, carv2.UseDataPadding(dp))
	payloadEnd = int(leU64(arch[27:35]) + leU64(arch[35:43]))
	return roots, bs, 2, dp, arch, payloadEnd
}

// famC02 emits, per generated archive: the intact archive through every reader, every truncation
// offset and a byte flip at every offset (quick: strided for larger archives), plus raw/mutated
// byte strings through every reader.
// bigSectionCases: archives with a section past the sizes where readers may switch strategy
// (64 KiB, 256 KiB chunks, 1 MiB), cut at sampled offsets inside and around the big section.
func bigSectionCases(g *Gen, o *Out, thorough bool) {
	sizes := []int{65500 + g.pick(80), 70000 + g.pick(30000), 1<<20 + 3000 + g.pick(1000)}
	if thorough {
		sizes = append(sizes, 65536, 262144+g.pick(100), 1<<20+g.pick(1000), 2<<20+g.pick(1000), 4<<20+g.pick(1000))
	}
	for si, sz := range sizes {
		small := g.Block()
		big := g.BlockWith(g.bytes(sz))
		bs := []Blk{small, big, g.Block()}
		o.HashBlocks(bs)
		r := []cid.Cid{small.C}
		v1 := g.pick(2) == 0 || si == 2 // the section past 1 MiB goes through every reader kind, the root module's included
		var arch []byte
		ver, pend := 1, 0
		if v1 {
			arch = writeAll(r, bs, true)
			pend = len(arch)
		} else {
			ver = 2
			arch = writeAll(r, bs, false)
			pend = int(leU64(arch[27:35]) + leU64(arch[35:43]))
		}
		ro := defaultReadOpts()
		desc := fmt.Sprintf("roots=%s blocks=%s ver=%d dp=0 arch=%s", rootsArg(r), blocksStr(bs), ver, hex.EncodeToString(arch))
		// offsets: a few before the big section, inside it at both ends and the middle, after it
		start := pend - sz - len(bs[2].D) - 200
		cuts := []int{start, start + 120, start + 200, start + 200 + sz/2, pend - len(bs[2].D) - 100, pend - len(bs[2].D) - 70, pend - 1}
		for _, k := range cuts {
			if k < 0 || k >= pend {
				continue
			}
			rds := []string{scanReaders[g.pick(2)]}
			if v1 {
				all := append(append(append([]string{}, scanReaders...), skipReaders...), rootReaders...)
				rds = []string{all[g.pick(len(all))]}
				if si == 2 && (k == start+200+sz/2 || k == pend-len(bs[2].D)-70) {
					rds = all // a cut in the middle of the big section and one just before its end: every reader
				}
			}
			for _, rd := range rds {
				o.Line(fmt.Sprintf("mut rd=%s %s %s trunc=%d", rd, ro, desc, k), runReader(rd, ro, arch[:k])+" archok=1")
				o.Count("trunc-big/" + rd)
			}
		}
	}
}

// hashKindCases: one small archive per hash function / digest length of the alphabet, with a flip
// in the block's data and one in its digest, so that no kind of CID escapes verification.
func hashKindCases(g *Gen, o *Out) {
	for _, hc := range hashAlphabet[5:] {
		d := g.bytes(3 + g.pick(20))
		h, err := mh.Sum(d, hc.code, hc.len)
		if err != nil {
			continue
		}
		b := Blk{cid.NewCidV1(cid.Raw, h), d}
		first := g.Block()
		bs := []Blk{first, b}
		o.HashBlocks(bs)
		r := []cid.Cid{first.C}
		arch := writeAll(r, bs, true)
		ro := defaultReadOpts()
		desc := fmt.Sprintf("roots=%s blocks=%s ver=1 dp=0 arch=%s", rootsArg(r), blocksStr(bs), hex.EncodeToString(arch))
		for _, i := range []int{len(arch) - 1, len(arch) - len(d), len(arch) - len(d) - 1} {
			x := byte(1 << g.pick(8))
			mutd := append([]byte{}, arch...)
			mutd[i] ^= x
			refSections(mutd, o.Hash)
			rd := scanReaders[g.pick(len(scanReaders))]
			o.Line(fmt.Sprintf("mut rd=%s %s %s flip=%d xor=%d", rd, ro, desc, i, x), runReader(rd, ro, mutd)+" archok=1")
			o.Count(fmt.Sprintf("flip-kind/%d", hc.code))
		}
	}
}

// repeatCases: the same block stored twice (legal: concatenated archives); the LATER copy is
// corrupted or cut, so a reader that remembers what it has already verified is caught.
func repeatCases(g *Gen, o *Out) {
	a, b := g.BlockWith(g.bytes(20+g.pick(40))), g.Block()
	o.HashBlocks([]Blk{a, b})
	r := []cid.Cid{a.C}
	// the later copy at a distance, and right behind the earlier one (a reader that compares a section with
	// the one it has just verified)
	for _, bs := range [][]Blk{{a, b, a}, {b, a, a}} {
	for _, v1 := range []bool{true, false} {
		arch := writeAll(r, bs, v1)
		end := len(arch)
		ver := 1
		if !v1 {
			ver = 2
			end = int(leU64(arch[27:35]) + leU64(arch[35:43]))
		}
		ro := defaultReadOpts()
		desc := fmt.Sprintf("roots=%s blocks=%s ver=%d dp=0 arch=%s", rootsArg(r), blocksStr(bs), ver, hex.EncodeToString(arch))
		for _, back := range []int{1, 5, len(a.D)} {
			i := end - back
			mutd := append([]byte{}, arch...)
			mutd[i] ^= byte(1 << g.pick(8))
			refSections(mutd, o.Hash)
			for _, rd := range scanReaders[:2] {
				o.Line(fmt.Sprintf("mut rd=%s %s %s flip=%d xor=%d", rd, ro, desc, i, mutd[i]^arch[i]), runReader(rd, ro, mutd)+" archok=1")
			}
			o.Line(fmt.Sprintf("inspect full=1 %s in=%s", ro, hexOr(mutd)), runInspect(mutd, ro, true))
			if v1 {
				cut := arch[:end-back]
				o.Line(fmt.Sprintf("inspect full=1 %s in=%s", ro, hexOr(cut)), runInspect(cut, ro, true))
			}
			o.Count("repeat-later-copy")
		}
	}
	}
}

// sectionCuts lists, for the payload window [base,end) of an archive, the offsets around every
// length prefix (one before it up to one past it) and a few inside each CID: the places where a cut
// changes which read fails.
func sectionCuts(arch []byte, base, end int) []int {
	var cuts []int
	p := base
	first := true
	for p < end && p < len(arch) {
		l, k := uvarintAt(arch, p)
		if k <= 0 {
			break
		}
		for d := -1; d <= k+1; d++ {
			cuts = append(cuts, p+d)
		}
		if !first {
			cuts = append(cuts, p+k+2, p+k+4, p+k+20, p+k+35, p+k+36, p+k+37)
		}
		first = false
		p += k + int(l)
	}
	return cuts
}

// prefixCutCases: for every option combination that changes how a length prefix is read
// (ZeroLengthSectionAsEOF on/off, trusted on/off) and every reader, cut a small archive whose sections
// have 1-, 2- and 3-byte length prefixes at every offset inside and next to each prefix, and inside
// the header's prefix. A cut inside a prefix is never a clean end, whatever the options.
func prefixCutCases(g *Gen, o *Out) {
	bs := []Blk{g.BlockWith(g.bytes(20)), g.BlockWith(g.bytes(150 + g.pick(60))), g.BlockWith(g.bytes(16400 + g.pick(50))), g.BlockWith(g.bytes(3))}
	o.HashBlocks(bs)
	r := []cid.Cid{bs[0].C}
	for _, v1 := range []bool{true, false} {
		arch := writeAll(r, bs, v1)
		ver, base, end := 1, 0, len(arch)
		if !v1 {
			ver = 2
			base = int(leU64(arch[27:35]))
			end = base + int(leU64(arch[35:43]))
		}
		cuts := sectionCuts(arch, base, end)
		desc := fmt.Sprintf("roots=%s blocks=%s ver=%d dp=0 arch=%s", rootsArg(r), blocksStr(bs), ver, hex.EncodeToString(arch))
		for _, z := range []bool{false, true} {
			for _, tr := range []bool{false, true} {
				ro := defaultReadOpts()
				ro.zeroEOF, ro.trusted = z, tr
				rds := append(append([]string{}, scanReaders...), skipReaders...)
				if ver == 1 && !z && !tr {
					rds = append(rds, rootReaders...)
				}
				for _, rd := range rds {
					if rd == "v1" && ver == 2 {
						continue
					}
					for _, k := range cuts {
						if k < 0 || k >= end {
							continue
						}
						o.Line(fmt.Sprintf("mut rd=%s %s %s trunc=%d", rd, ro, desc, k), runReader(rd, ro, arch[:k])+" archok=1")
						o.Count("prefixcut/" + rd)
					}
				}
				for _, k := range cuts {
					if k < 0 || k >= end {
						continue
					}
					for _, full := range []bool{true, false} {
						o.Line(fmt.Sprintf("inspect full=%d %s in=%s", b2i(full), ro, hexOr(arch[:k])), runInspect(arch[:k], ro, full))
					}
					o.Count("prefixcut/inspect")
				}
			}
		}
	}
}

// longStreamCases: an archive of many small sections, several times the size of any reader's internal
// buffer (4 KiB, 16 KiB …): intact, and cut at a few offsets, through every reader; the blocks a reader
// handed out are re-hashed only after the whole scan (a reader must not hand out bytes it later reuses).
func longStreamCases(g *Gen, o *Out) {
	var bs []Blk
	for i := 0; i < 40+g.pick(20); i++ {
		bs = append(bs, g.BlockWith(g.bytes(200+g.pick(200))))
	}
	o.HashBlocks(bs)
	r := []cid.Cid{bs[0].C}
	for _, v1 := range []bool{true, false} {
		arch := writeAll(r, bs, v1)
		ver, end := 1, len(arch)
		if !v1 {
			ver = 2
			end = int(leU64(arch[27:35]) + leU64(arch[35:43]))
		}
		ro := defaultReadOpts()
		desc := fmt.Sprintf("roots=%s blocks=%s ver=%d dp=0 arch=%s", rootsArg(r), blocksStr(bs), ver, hex.EncodeToString(arch))
		rds := append(append([]string{}, scanReaders...), skipReaders...)
		if v1 {
			rds = append(rds, rootReaders...)
		}
		for _, rd := range rds {
			if rd == "v1" && ver == 2 {
				continue
			}
			for _, k := range []int{end, end - 1, end - 150, 4096, 4097, 8192 + g.pick(100), end / 2} {
				if k == end && ver == 2 {
					continue
				}
				o.Line(fmt.Sprintf("mut rd=%s %s %s trunc=%d", rd, ro, desc, k), runReader(rd, ro, arch[:k])+" archok=1")
				o.Count("longstream/" + rd)
			}
		}
	}
}

func famC02(g *Gen, o *Out, n int, thorough bool) {
	prefixCutCases(g, o)
	longStreamCases(g, o)
	bigSectionCases(g, o, thorough)
	hashKindCases(g, o)
	repeatCases(g, o)
	for c := 0; c < n; c++ {
		maxB := 4
		if thorough {
			maxB = 8
		}
		roots, bs, ver, dp, arch, pend := genArchive(g, maxB)
		o.HashBlocks(bs)
		ro := defaultReadOpts()
		if g.pick(5) == 0 {
			ro.zeroEOF = true
		}
		desc := fmt.Sprintf("roots=%s blocks=%s ver=%d dp=%d arch=%s", roots, blocksStr(bs), ver, dp, hex.EncodeToString(arch))
		stride := 1
		if !thorough && pend > 600 {
			stride = pend / 300
		}
		if thorough && pend*pend > 1500000 {
			stride = pend * pend / 1500000 // every offset of small archives; a bounded script for big ones
		}
		pickRd := func() string {
			if ver == 2 || roots == "nil" || roots == "-" {
				return scanReaders[g.pick(2)] // the CARv1 reader documents: CARv1 input with at least one root
			}
			if g.pick(3) == 0 && !ro.zeroEOF {
				return rootReaders[g.pick(len(rootReaders))]
			}
			return scanReaders[g.pick(len(scanReaders))]
		}
		rd := pickRd()
		for k := 0; k <= pend; k += stride {
			if k == pend && ver == 2 {
				break // the index follows; cutting there is not a payload truncation
			}
			if pend > 2000 && k%stride != 0 {
				continue
			}
			res := runReader(rd, ro, arch[:k])
			o.Line(fmt.Sprintf("mut rd=%s %s %s trunc=%d", rd, ro, desc, k), res+" archok=1")
			o.Count("trunc/" + rd)
		}
		// the same cuts through a pure SkipNext iteration (seekable: block data is seeked over, so a
		// cut inside it is only visible through the reader's notion of where the source ends)
		srd := skipReaders[g.pick(2)]
		for k := 0; k <= pend; k += stride {
			if k == pend && ver == 2 {
				break
			}
			o.Line(fmt.Sprintf("mut rd=%s %s %s trunc=%d", srd, ro, desc, k), runReader(srd, ro, arch[:k])+" archok=1")
			o.Count("trunc/" + srd)
		}
		rd = pickRd()
		for i := 0; i < pend; i += stride {
			x := byte(1 << g.pick(8))
			if g.pick(3) == 0 {
				x = byte(1 + g.pick(255))
			}
			mutd := append([]byte{}, arch...)
			mutd[i] ^= x
			refSections(mutd, o.Hash)
			res := runReader(rd, ro, mutd)
			o.Line(fmt.Sprintf("mut rd=%s %s %s flip=%d xor=%d", rd, ro, desc, i, x), res+" archok=1")
			o.Count("flip/" + rd)
			if g.pick(2) == 0 { // full inspection is a scanning reader too: it must report what the scan reports
				o.Line(fmt.Sprintf("inspect full=1 %s in=%s", ro, hexOr(mutd)), runInspect(mutd, ro, true))
				o.Count("flip/inspect")
			}
		}
		// arbitrary byte strings: random, and structure-aware splices of the archive
		for j := 0; j < 6; j++ {
			var in []byte
			switch g.pick(4) {
			case 0:
				in = g.bytes(g.pick(80))
			case 1:
				in = append(append([]byte{}, arch[:g.pick(len(arch)+1)]...), g.bytes(g.pick(40))...)
			case 2:
				in = append([]byte{}, arch...)
				for t := 0; t < 1+g.pick(3) && len(in) > 0; t++ {
					in[g.pick(len(in))] = byte(g.pick(256))
				}
			default:
				a, b := g.pick(len(arch)+1), g.pick(len(arch)+1)
				if a > b {
					a, b = b, a
				}
				in = append(append([]byte{}, arch[:a]...), arch[b:]...)
			}
			refSections(in, o.Hash)
			ro2 := ro
			if g.pick(4) == 0 {
				ro2.ms = uint64(g.pick(200))
			}
			if g.pick(6) == 0 {
				ro2.mh = uint64(g.pick(100))
			}
			for _, rd := range scanReaders {
				o.Line(fmt.Sprintf("scan rd=%s %s in=%s", rd, ro2, hexOr(in)), runReader(rd, ro2, in))
				o.Count("scan/" + rd)
			}
		}
	}
}
