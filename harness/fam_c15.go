package main

import (
	"bytes"
	"context"
	"fmt"
	"io"
	"os"
	"strings"

	blocks "github.com/ipfs/go-block-format"
	"github.com/ipfs/go-cid"
	format "github.com/ipfs/go-ipld-format"
	"github.com/ipfs/go-merkledag"
	car "github.com/ipld/go-car"
	carv2 "github.com/ipld/go-car/v2"
	"github.com/ipld/go-ipld-prime"
	"github.com/ipld/go-ipld-prime/datamodel"
	"github.com/ipld/go-ipld-prime/fluent/qp"
	"github.com/ipld/go-ipld-prime/linking"
	cidlink "github.com/ipld/go-ipld-prime/linking/cid"
	basicnode "github.com/ipld/go-ipld-prime/node/basic"
	"github.com/ipld/go-ipld-prime/storage/memstore"
	"github.com/ipld/go-ipld-prime/traversal/selector"
	sb "github.com/ipld/go-ipld-prime/traversal/selector/builder"
	selectorparse "github.com/ipld/go-ipld-prime/traversal/selector/parse"
	"github.com/multiformats/go-multicodec"

	"github.com/ipld/go-ipld-prime/codec/dagcbor"
	_ "github.com/ipld/go-ipld-prime/codec/raw"
)

// dag is a random DAG of dag-cbor nodes with raw leaves, shared subtrees and repeated links.
type dag struct {
	ls     ipld.LinkSystem
	store  *memstore.Store
	all    []cid.Cid
	root   cid.Cid
	loads  []cid.Cid // every StorageReadOpener call, in order
}

// dagForce: features the next buildDag must include (set by the families for their first, fixed cases)
var dagForce struct{ big, twins bool }

func (g *Gen) buildDag(depth int) *dag {
	d := &dag{store: &memstore.Store{}}
	d.ls = cidlink.DefaultLinkSystem()
	d.ls.SetWriteStorage(d.store)
	d.ls.SetReadStorage(d.store)
	inner := d.ls.StorageReadOpener
	d.ls.StorageReadOpener = func(lc linking.LinkContext, l datamodel.Link) (io.Reader, error) {
		d.loads = append(d.loads, l.(cidlink.Link).Cid)
		return inner(lc, l)
	}
	rawLP := cidlink.LinkPrototype{Prefix: cid.Prefix{Version: 1, Codec: cid.Raw, MhType: 0x12, MhLength: 32}}
	cborLP := cidlink.LinkPrototype{Prefix: cid.Prefix{Version: 1, Codec: cid.DagCBOR, MhType: 0x12, MhLength: 32}}
	var level []datamodel.Link
	for i := 0; i < 2+g.pick(3); i++ {
		sz := 1 + g.pick(40)
		if g.pick(8) == 0 || (dagForce.big && i == 0) {
			// leaves whose section length crosses the 2-byte / 3-byte varint boundary and beyond
			sz = []int{16340 + g.pick(20), 16384, 20000 + g.pick(1000), 33000}[g.pick(4)]
		}
		l, err := d.ls.Store(linking.LinkContext{}, rawLP, basicnode.NewBytes(g.bytes(sz)))
		if err != nil {
			panic(err)
		}
		level = append(level, l)
		d.all = append(d.all, l.(cidlink.Link).Cid)
	}
	var twinLinks []datamodel.Link
	forceTwins := dagForce.twins
	if g.pick(3) == 0 || dagForce.twins {
		// multihash twins: the same bytes (a CBOR text string) linked once as raw and once as dag-cbor —
		// two different CIDs, two blocks to write, one multihash
		txt := fmt.Sprintf("twin-%d-%x", g.pick(1000), g.bytes(1+g.pick(20)))
		n := basicnode.NewString(txt)
		var buf bytes.Buffer
		if err := dagcbor.Encode(n, &buf); err == nil {
			l1, e1 := d.ls.Store(linking.LinkContext{}, rawLP, basicnode.NewBytes(buf.Bytes()))
			l2, e2 := d.ls.Store(linking.LinkContext{}, cborLP, n)
			if e1 == nil && e2 == nil {
				twinLinks = []datamodel.Link{l1, l2}
				level = append(level, l1, l2)
				d.all = append(d.all, l1.(cidlink.Link).Cid, l2.(cidlink.Link).Cid)
			}
		}
	}
	var older []datamodel.Link
	for lv := 0; lv < depth; lv++ {
		var next []datamodel.Link
		width := 1 + g.pick(3)
		if lv == depth-1 {
			width = 1
		}
		for i := 0; i < width; i++ {
			kids := []datamodel.Link{}
			for k := 0; k < 1+g.pick(4); k++ {
				if len(older) > 0 && g.pick(3) == 0 {
					// a link that skips levels: the same block is then reachable at different depths,
					// so a depth-limited or budgeted walk treats its visits differently
					kids = append(kids, older[g.pick(len(older))])
				} else {
					kids = append(kids, level[g.pick(len(level))]) // repeats and sharing on purpose
				}
			}
			if forceTwins && lv == depth-1 {
				kids = append(kids, twinLinks...) // the root itself links to both twins
			}
			n, err := qp.BuildMap(basicnode.Prototype.Any, -1, func(ma datamodel.MapAssembler) {
				qp.MapEntry(ma, "a", qp.Link(kids[0]))
				qp.MapEntry(ma, "b", qp.List(-1, func(la datamodel.ListAssembler) {
					for _, k := range kids[1:] {
						qp.ListEntry(la, qp.Link(k))
					}
				}))
				qp.MapEntry(ma, "v", qp.Int(int64(g.pick(1000))))
			})
			if err != nil {
				panic(err)
			}
			l, err := d.ls.Store(linking.LinkContext{}, cborLP, n)
			if err != nil {
				panic(err)
			}
			next = append(next, l)
			d.all = append(d.all, l.(cidlink.Link).Cid)
		}
		older = append(older, level...)
		level = next
	}
	d.root = level[0].(cidlink.Link).Cid
	return d
}

// buildSkewDag: R -a-> A1 -a-> ... -a-> S -a-> X, and R.b = [S]: the shared node S is met first at
// the end of a long path and again directly under the root, so a depth limit (or a link budget)
// cuts its children off on the first visit but not on the second.
func (g *Gen) buildSkewDag() (*dag, int) {
	d := &dag{store: &memstore.Store{}}
	d.ls = cidlink.DefaultLinkSystem()
	d.ls.SetWriteStorage(d.store)
	d.ls.SetReadStorage(d.store)
	inner := d.ls.StorageReadOpener
	d.ls.StorageReadOpener = func(lc linking.LinkContext, l datamodel.Link) (io.Reader, error) {
		d.loads = append(d.loads, l.(cidlink.Link).Cid)
		return inner(lc, l)
	}
	rawLP := cidlink.LinkPrototype{Prefix: cid.Prefix{Version: 1, Codec: cid.Raw, MhType: 0x12, MhLength: 32}}
	cborLP := cidlink.LinkPrototype{Prefix: cid.Prefix{Version: 1, Codec: cid.DagCBOR, MhType: 0x12, MhLength: 32}}
	put := func(lp cidlink.LinkPrototype, n datamodel.Node) datamodel.Link {
		l, err := d.ls.Store(linking.LinkContext{}, lp, n)
		if err != nil {
			panic(err)
		}
		d.all = append(d.all, l.(cidlink.Link).Cid)
		return l
	}
	mk := func(a datamodel.Link, b []datamodel.Link) datamodel.Link {
		n, err := qp.BuildMap(basicnode.Prototype.Any, -1, func(ma datamodel.MapAssembler) {
			qp.MapEntry(ma, "a", qp.Link(a))
			qp.MapEntry(ma, "b", qp.List(-1, func(la datamodel.ListAssembler) {
				for _, k := range b {
					qp.ListEntry(la, qp.Link(k))
				}
			}))
			qp.MapEntry(ma, "v", qp.Int(int64(g.pick(1000))))
		})
		if err != nil {
			panic(err)
		}
		return put(cborLP, n)
	}
	x := put(rawLP, basicnode.NewBytes(g.bytes(1+g.pick(30))))
	x2 := put(rawLP, basicnode.NewBytes(g.bytes(1+g.pick(30))))
	sNode := mk(x, []datamodel.Link{x2})
	chain := 1 + g.pick(3)
	top := sNode
	for i := 0; i < chain; i++ {
		top = mk(top, nil)
	}
	root := mk(top, []datamodel.Link{sNode})
	d.root = root.(cidlink.Link).Cid
	return d, chain
}

func (d *dag) blocksArg() string {
	var bs []Blk
	seen := map[string]bool{}
	for _, c := range d.all {
		if seen[c.KeyString()] {
			continue
		}
		seen[c.KeyString()] = true
		data, _ := d.store.Get(context.Background(), c.KeyString())
		bs = append(bs, Blk{c, data})
	}
	return blocksStr(bs)
}

// readStore adapts the memstore to the root module's ReadStore.
type readStore struct{ d *dag }

func (r readStore) Get(ctx context.Context, c cid.Cid) (blocks.Block, error) {
	data, err := r.d.store.Get(ctx, c.KeyString())
	if err != nil {
		return nil, err
	}
	return blocks.NewBlockWithCid(data, c)
}

func (g *Gen) selectorFor(kind int) (datamodel.Node, string) {
	ssb := sb.NewSelectorSpecBuilder(basicnode.Prototype.Any)
	switch kind {
	case 0:
		return selectorparse.CommonSelector_ExploreAllRecursively, "all"
	case 1:
		dep := int64(1 + g.pick(3))
		return ssb.ExploreRecursive(selector.RecursionLimitDepth(dep), ssb.ExploreAll(ssb.ExploreRecursiveEdge())).Node(), fmt.Sprintf("depth%d", dep)
	default:
		return ssb.ExploreFields(func(efsb sb.ExploreFieldsSpecBuilder) {
			efsb.Insert("a", ssb.ExploreRecursive(selector.RecursionLimitNone(), ssb.ExploreAll(ssb.ExploreRecursiveEdge())))
		}).Node(), "field-a"
	}
}

func famC15(g *Gen, o *Out, n int, thorough bool) {
	ctx := context.Background()
	for c := 0; c < n; c++ {
		// the first six cases are fixed: a leaf past the 2-byte length prefix, multihash twins, both — each
		// under the explore-all selector, with and without link-visit-once
		fixed := c < 6
		dagForce.big, dagForce.twins = fixed && c%3 != 1, fixed && c%3 != 0
		d := g.buildDag(1 + g.pick(3))
		dagForce.big, dagForce.twins = false, false
		sel, selName := g.selectorFor(g.pick(3))
		dup := g.pick(3) == 0
		skew := g.pick(4) == 0
		if fixed {
			sel, selName = g.selectorFor(0)
			dup, skew = c >= 3, false
		}
		fixedSkew := c >= 6 && c < 10 // and four skewed DAGs under a depth limit, link-visit-once off and on
		if fixedSkew {
			skew = true
		}
		if skew {
			var chain int
			d, chain = g.buildSkewDag()
			dep := int64(chain + 1 + g.pick(3))
			ssb := sb.NewSelectorSpecBuilder(basicnode.Prototype.Any)
			sel = ssb.ExploreRecursive(selector.RecursionLimitDepth(dep), ssb.ExploreAll(ssb.ExploreRecursiveEdge())).Node()
			selName = fmt.Sprintf("depth%d", dep)
			dup = g.pick(2) == 0
			if fixedSkew {
				dup = c%2 == 0
			}
		}
		dp := []uint64{0, 0, 5, 64, 4096, 4097, 5000, 10000, 70000}[g.pick(9)]
		ip := []uint64{0, 0, 9, 4097, 9000}[g.pick(5)]
		idx := []string{"mh", "sorted", "none"}[g.pick(3)]
		opts := []carv2.Option{carv2.AllowDuplicatePuts(dup), carv2.UseDataPadding(dp), carv2.UseIndexPadding(ip)}
		switch idx {
		case "sorted":
			opts = append(opts, carv2.UseIndexCodec(multicodec.CarIndexSorted))
		case "none":
			opts = append(opts, carv2.WithoutIndex())
		}
		if g.pick(5) == 0 {
			opts = append(opts, carv2.MaxTraversalLinks(uint64(1+g.pick(6))))
		}
		desc := fmt.Sprintf("root=%x blocks=%s dp=%d ip=%d idx=%s dup=%d sel=%s", d.root.Bytes(), d.blocksArg(), dp, ip, idx, b2i(dup), selName)
		loadsStr := func() string { return cidsStr(d.loads) }
		// (a) v2 selective writer: counting pass, then the teeing pass
		{
			d.loads = nil
			w, err := carv2.NewSelectiveWriter(ctx, &d.ls, d.root, sel, opts...)
			res := "r=err"
			lstr := "-"
			if err == nil {
				d.loads = nil
				var buf bytes.Buffer
				nw, err := w.WriteTo(&buf)
				lstr = loadsStr()
				if err != nil {
					// a failed write still reports how many bytes went out
					res = fmt.Sprintf("r=%s nsame=%d", classifyTrav(err), b2i(int(nw) == buf.Len()))
				} else {
					b := buf.Bytes()
					doff, dsz, ioff := leU64(b[27:35]), leU64(b[35:43]), leU64(b[43:51])
					res = fmt.Sprintf("r=ok n=%d len=%d hdr=%d.%d.%d v1=%x", nw, len(b), doff, dsz, ioff, b[doff:doff+dsz])
				}
			} else {
				lstr = loadsStr()
			}
			o.Line(fmt.Sprintf("trav kind=v2sel opened=%d %s eng=%s loads=%s", b2i(err == nil), desc, engOf(res), lstr), res)
			o.Count("v2sel/" + strings.SplitN(res, " ", 2)[0])
		}
		// (b) TraverseV1
		{
			d.loads = nil
			var buf bytes.Buffer
			nw, err := carv2.TraverseV1(ctx, &d.ls, d.root, sel, &buf, opts...)
			res := fmt.Sprintf("r=%s nsame=%d", classifyTrav(err), b2i(int(nw) == buf.Len()))
			if err == nil {
				res = fmt.Sprintf("r=ok n=%d v1=%x", nw, buf.Bytes())
			}
			o.Line(fmt.Sprintf("trav kind=v1 %s eng=%s loads=%s", desc, engOf(res), loadsStr()), res)
		}
		// (c) TraverseToFile
		{
			d.loads = nil
			p := tmpPath(fmt.Sprintf("c15-%d.car", c))
			os.Remove(p)
			if g.pick(3) == 0 { // a destination that already exists and is longer than the output
				os.WriteFile(p, g.bytes(90000+g.pick(5000)), 0o644)
			}
			err := carv2.TraverseToFile(ctx, &d.ls, d.root, sel, p, opts...)
			res := "r=" + classifyTrav(err)
			if err == nil {
				b, _ := os.ReadFile(p)
				doff, dsz, ioff := leU64(b[27:35]), leU64(b[35:43]), leU64(b[43:51])
				res = fmt.Sprintf("r=ok len=%d hdr=%d.%d.%d v1=%x", len(b), doff, dsz, ioff, b[doff:doff+dsz])
			}
			os.Remove(p)
			o.Line(fmt.Sprintf("trav kind=file %s eng=%s loads=%s", desc, engOf(res), loadsStr()), res)
		}
		// (d) root-module SelectiveCar: Write with callbacks, Prepare + Size + Cids, Dump
		{
			var ropts []car.Option
			if !dup {
				ropts = append(ropts, car.TraverseLinksOnlyOnce())
			}
			sc := car.NewSelectiveCar(ctx, readStore{d}, []car.Dag{{Root: d.root, Selector: sel}}, ropts...)
			d.loads = nil
			var buf bytes.Buffer
			// one to three callbacks: each must be told the same true offsets and sizes
			nw := 1 + g.pick(3)
			wlists := make([][]string, nw)
			var wcbs []car.OnNewCarBlockFunc
			for i := 0; i < nw; i++ {
				i := i
				wcbs = append(wcbs, func(b car.Block) error {
					wlists[i] = append(wlists[i], fmt.Sprintf("%x:%d:%d", b.BlockCID.Bytes(), b.Offset, b.Size))
					return nil
				})
			}
			err := sc.Write(&buf, wcbs...)
			cbs := wlists[0]
			allSame := true
			for _, l := range wlists[1:] {
				if strings.Join(l, ",") != strings.Join(cbs, ",") {
					allSame = false
				}
			}
			loads := rootLoads(&buf)
			res := "r=" + classifyTrav(err)
			if err == nil {
				res = fmt.Sprintf("r=ok v1=%x cb=%s", buf.Bytes(), strings.Join(cbs, ","))
				if len(cbs) == 0 {
					res += "-"
				}
				// Prepare with zero to three callbacks; Dump must tell each of them what Write told
				nd := g.pick(4)
				dlists := make([][]string, nd)
				var dcbs []car.OnNewCarBlockFunc
				for i := 0; i < nd; i++ {
					i := i
					dcbs = append(dcbs, func(b car.Block) error {
						dlists[i] = append(dlists[i], fmt.Sprintf("%x:%d:%d", b.BlockCID.Bytes(), b.Offset, b.Size))
						return nil
					})
				}
				prep, err := sc.Prepare(dcbs...)
				if err != nil {
					res += " prep=err"
				} else {
					var dump bytes.Buffer
					derr := prep.Dump(ctx, &dump)
					for _, l := range dlists {
						if strings.Join(l, ",") != strings.Join(cbs, ",") {
							allSame = false
						}
					}
					res += fmt.Sprintf(" size=%d cids=%s dumpsame=%d", prep.Size(), cidsStr(prep.Cids()),
						b2i(derr == nil && allSame && bytes.Equal(dump.Bytes(), buf.Bytes())))
				}
			}
			o.Line(fmt.Sprintf("trav kind=rootsel %s eng=%s loads=%s", desc, engOf(res), cidsStr(loads)), res)
		}
		// (d') the same with several Dags in one SelectiveCar: the same root twice, a root inside the first
		// Dag, a sibling sharing leaves — every block still once
		if g.pick(2) == 0 || c < 10 {
			second := d.root
			if len(d.all) > 1 && g.pick(3) != 0 {
				second = d.all[g.pick(len(d.all))]
			}
			mroots := []cid.Cid{d.root, second}
			if g.pick(3) == 0 {
				mroots = append(mroots, d.all[g.pick(len(d.all))])
			}
			var dags []car.Dag
			for _, r := range mroots {
				dags = append(dags, car.Dag{Root: r, Selector: sel})
			}
			var ropts []car.Option
			if !dup {
				ropts = append(ropts, car.TraverseLinksOnlyOnce())
			}
			sc := car.NewSelectiveCar(ctx, readStore{d}, dags, ropts...)
			var buf bytes.Buffer
			var cbs []string
			err := sc.Write(&buf, func(b car.Block) error {
				cbs = append(cbs, fmt.Sprintf("%x:%d:%d", b.BlockCID.Bytes(), b.Offset, b.Size))
				return nil
			})
			loads := rootLoads(&buf)
			res := "r=" + classifyTrav(err)
			if err == nil {
				res = fmt.Sprintf("r=ok v1=%x cb=%s", buf.Bytes(), strings.Join(cbs, ","))
				if len(cbs) == 0 {
					res += "-"
				}
				prep, err := sc.Prepare()
				if err != nil {
					res += " prep=err"
				} else {
					var dump bytes.Buffer
					derr := prep.Dump(ctx, &dump)
					res += fmt.Sprintf(" size=%d cids=%s dumpsame=%d", prep.Size(), cidsStr(prep.Cids()), b2i(derr == nil && bytes.Equal(dump.Bytes(), buf.Bytes())))
				}
			}
			o.Line(fmt.Sprintf("trav kind=rootselmulti roots=%s %s eng=%s loads=%s", cidsStr(mroots), desc, engOf(res), cidsStr(loads)), res)
			o.Count("rootselmulti")
		}
		o.Count("dag")
	}
	// (e) root-module WriteCar over a go-merkledag ProtoNode DAG
	for c := 0; c < n/2+1; c++ {
		ng, roots, order := g.protoDag()
		var buf bytes.Buffer
		ng.gets = nil
		err := car.WriteCar(ctx, ng, roots, &buf)
		res := "r=" + classifyTrav(err)
		if err == nil {
			res = fmt.Sprintf("r=ok v1=%x", buf.Bytes())
		}
		var bs []Blk
		for _, nd := range order {
			bs = append(bs, Blk{nd.Cid(), nd.RawData()})
		}
		o.Line(fmt.Sprintf("trav kind=writecar roots=%s blocks=%s loads=%s", cidsStr(roots), blocksStr(bs), cidsStr(ng.gets)), res)
		o.Count("writecar")
	}
	if workDir != "" {
		os.RemoveAll(workDir)
	}
}

// rootLoads recovers the emission order from the bytes (the root traverser reports each first load through its callback).
func rootLoads(buf *bytes.Buffer) []cid.Cid {
	br, err := carv2.NewBlockReader(bytes.NewReader(buf.Bytes()))
	if err != nil {
		return nil
	}
	var out []cid.Cid
	for {
		m, err := br.SkipNext()
		if err != nil {
			return out
		}
		out = append(out, m.Cid)
	}
}

// engOf: did the traversal engine itself fail (budget exceeded, missing block …)? That outcome is a
// parameter of the model; a size mismatch is go-car's own verdict and is never excused.
func engOf(res string) string {
	if strings.HasPrefix(res, "r=err") {
		return "err"
	}
	return "ok"
}

func classifyTrav(err error) string {
	if err == nil {
		return "ok"
	}
	if err == carv2.ErrSizeMismatch {
		return "sizemismatch"
	}
	return "err"
}

// logging NodeGetter over an in-memory set of ProtoNodes
type nodeGetter struct {
	nodes map[string]format.Node
	gets  []cid.Cid
}

func (n *nodeGetter) Get(ctx context.Context, c cid.Cid) (format.Node, error) {
	n.gets = append(n.gets, c)
	nd, ok := n.nodes[c.KeyString()]
	if !ok {
		return nil, format.ErrNotFound{Cid: c}
	}
	return nd, nil
}

func (n *nodeGetter) GetMany(ctx context.Context, cs []cid.Cid) <-chan *format.NodeOption {
	ch := make(chan *format.NodeOption, len(cs))
	for _, c := range cs {
		nd, err := n.Get(ctx, c)
		ch <- &format.NodeOption{Node: nd, Err: err}
	}
	close(ch)
	return ch
}

func (g *Gen) protoDag() (*nodeGetter, []cid.Cid, []format.Node) {
	ng := &nodeGetter{nodes: map[string]format.Node{}}
	var all []format.Node
	var level []format.Node
	for i := 0; i < 2+g.pick(3); i++ {
		nd := merkledag.NodeWithData(g.bytes(1 + g.pick(30)))
		level = append(level, nd)
		all = append(all, nd)
	}
	for lv := 0; lv < 1+g.pick(3); lv++ {
		var next []format.Node
		for i := 0; i < 1+g.pick(2); i++ {
			nd := merkledag.NodeWithData(g.bytes(g.pick(10)))
			for k := 0; k < 1+g.pick(4); k++ {
				nd.AddNodeLink(fmt.Sprintf("l%d", k), level[g.pick(len(level))])
			}
			next = append(next, nd)
			all = append(all, nd)
		}
		level = next
	}
	for _, nd := range all {
		ng.nodes[nd.Cid().KeyString()] = nd
	}
	roots := []cid.Cid{level[0].Cid()}
	if len(level) > 1 && g.pick(2) == 0 {
		roots = append(roots, level[1].Cid())
	}
	if g.pick(4) == 0 {
		roots = append(roots, roots[0]) // a repeated root
	}
	return ng, roots, all
}
