package main

import (
	"bytes"
	"context"
	"fmt"
	"os"
	"strings"

	"github.com/ipld/go-car/v2/storage"
	"github.com/ipld/go-car/v2/storage/deferred"
)

// famC20: sequences of OnPut registrations, Has, Put, Close over path and stream targets; after
// every step the bytes on the stream / the existence and bytes of the file, and the callback log.
func famC20(g *Gen, o *Out, n int, thorough bool) {
	ctx := context.Background()
	for c := 0; c < n; c++ {
		wo := g.wOpts()
		wo.mcs = 2048
		target := []string{"path", "stream"}[g.pick(2)]
		sv2 := false
		if target == "stream" {
			wo.v1 = true // a stream target is CARv1 by construction (the constructor sets WriteAsCarV1)
			if g.pick(6) == 0 {
				// … unless the caller says otherwise: an explicit WriteAsCarV1(false) is the caller's word,
				// and a plain stream cannot carry a CARv2 — every Put is refused, nothing is written
				wo.v1, sv2 = false, true
			}
		}
		bs := g.Blocks(5)
		if len(bs) == 0 {
			bs = []Blk{g.Block()}
		}
		o.HashBlocks(bs)
		roots := g.Roots(bs)
		var buf bytes.Buffer
		p := tmpPath(fmt.Sprintf("c20-%d.car", c))
		os.Remove(p)
		// a destination that already exists (shorter / much longer than what will be written): the
		// deferred writer creates the file afresh at the first Put, exactly like a direct writer on a
		// new file; until then the old file is untouched
		pre := "absent"
		var old []byte
		if target == "path" {
			switch g.pick(3) {
			case 1:
				pre, old = "shorter", g.bytes(1+g.pick(40))
			case 2:
				pre, old = "longer", g.bytes(6000+g.pick(3000))
			}
			if old != nil {
				os.WriteFile(p, old, 0o644)
			}
		}
		touched := false
		var dcw *deferred.DeferredCarWriter
		eff := wo
		if target == "path" {
			dcw = deferred.NewDeferredCarWriterForPath(p, roots, wo.opts()...)
		} else if streamFile := c%3 == 2 && !sv2; streamFile {
			// a stream that can also WriteAt and is not at position 0: an *os.File the caller has already
			// written 16 bytes through. A direct writer on such a stream writes from offset 0 (it sees the
			// WriterAt), and so must the deferred one: the 16 bytes are overwritten by the header
			f, err := os.OpenFile(p, os.O_RDWR|os.O_CREATE|os.O_TRUNC, 0o644)
			if err != nil {
				panic(err)
			}
			defer f.Close()
			old = []byte("0123456789abcdef")
			f.Write(old)
			dcw = deferred.NewDeferredCarWriterForStream(f, roots, wo.opts()...)
			eff.v1 = true
			target = "streamfile"
		} else {
			dcw = deferred.NewDeferredCarWriterForStream(&plainWriter{&buf}, roots, wo.opts()...)
			eff.v1 = true
		}
		state := func() string {
			if target == "stream" {
				if buf.Len() == 0 {
					return "exists=0 out=-"
				}
				return "exists=1 out=" + hexOr(buf.Bytes())
			}
			b, err := os.ReadFile(p)
			if err != nil {
				return "exists=0 out=-"
			}
			if old != nil && !touched {
				if bytes.Equal(b, old) {
					return "exists=0 out=-" // still the caller's old file, byte for byte: nothing created yet
				}
				touched = true
			}
			return "exists=1 out=" + hexOr(b)
		}
		lineTarget := target
		if target == "streamfile" {
			lineTarget = "stream" // for model and specification it is a stream target
		}
		o.Line(fmt.Sprintf("dopen target=%s pre=%s sv2=%d %s roots=%s", lineTarget, pre, b2i(sv2), wo, rootsArg(roots)), "r=ok "+state())
		o.Count("pre/" + pre)
		var fired []string
		nextID := 1
		steps := 3 + g.pick(10)
		if thorough {
			steps = 4 + g.pick(24)
		}
		for i := 0; i < steps; i++ {
			fired = nil
			switch k := g.pick(10); {
			case k < 3:
				id, once := nextID, g.pick(2) == 0
				nextID++
				if g.pick(4) == 0 || (c < 2 && i == 0) {
					// a callback that registers another one while it runs (a "first byte" hook installing a counter)
					id2, once2 := nextID, g.pick(2) == 0
					nextID++
					dcw.OnPut(func(int) {
						fired = append(fired, fmt.Sprint(id))
						dcw.OnPut(func(int) { fired = append(fired, fmt.Sprint(id2)) }, once2)
					}, once)
					o.Line(fmt.Sprintf("donput id=%d once=%d spawn=%d sonce=%d", id, b2i(once), id2, b2i(once2)), "r=ok fired=- "+state())
					o.Count("onput/registering-callback")
					break
				}
				dcw.OnPut(func(int) { fired = append(fired, fmt.Sprint(id)) }, once)
				o.Line(fmt.Sprintf("donput id=%d once=%d", id, b2i(once)), "r=ok fired=- "+state())
			case k < 5:
				b := bs[g.pick(len(bs))]
				h, err := dcw.Has(ctx, string(b.C.Bytes()))
				r := fmt.Sprint(h)
				if err != nil {
					r = classifyStore(err)
				}
				o.Line(fmt.Sprintf("dhas c=%x", b.C.Bytes()), "r="+r+" fired=- "+state())
			case k < 9:
				b := bs[g.pick(len(bs))]
				err := dcw.Put(ctx, string(b.C.Bytes()), b.D)
				f := "-"
				if len(fired) > 0 {
					f = strings.Join(fired, ".")
				}
				o.Line(fmt.Sprintf("dput c=%x d=%s", b.C.Bytes(), hexOr(b.D)), "r="+classifyStore(err)+" fired="+f+" "+state())
			default:
				err := dcw.Close()
				o.Line("dclose", "r="+classifyStore(err)+" fired=- "+state())
			}
			o.Count(target)
		}
		fired = nil
		err := dcw.Close()
		o.Line("dclose", "r="+classifyStore(err)+" fired=- "+state())
		os.Remove(p)
		_ = storage.ErrClosed
	}
	if workDir != "" {
		os.RemoveAll(workDir)
	}
}
