package main

import (
	"bufio"
	"bytes"
	"context"
	"fmt"
	"io"

	car "github.com/ipld/go-car"

	blocks "github.com/ipfs/go-block-format"
	"github.com/ipfs/go-cid"
	carv2 "github.com/ipld/go-car/v2"
)

type readOpts struct {
	zeroEOF bool
	ms, mh  uint64
	trusted bool
}

func defaultReadOpts() readOpts { return readOpts{false, 8 << 20, 32 << 20, false} }

func (o readOpts) String() string {
	return fmt.Sprintf("z=%d ms=%d mh=%d tr=%d", b2i(o.zeroEOF), o.ms, o.mh, b2i(o.trusted))
}

func (o readOpts) opts() []carv2.Option {
	return []carv2.Option{carv2.ZeroLengthSectionAsEOF(o.zeroEOF), carv2.MaxAllowedSectionSize(o.ms),
		carv2.MaxAllowedHeaderSize(o.mh), carv2.WithTrustedCAR(o.trusted)}
}

type nexter interface {
	Next() (blocks.Block, error)
}

func drain(n nexter) ([]Blk, error) {
	var out []Blk
	for {
		b, err := n.Next()
		if err != nil {
			// a caller that logs the error and asks again: two more calls, which may fail or end but not crash
			// (a panic here escapes to the family's crash handling with the case recorded)
			n.Next()
			n.Next()
			return out, err
		}
		out = append(out, Blk{b.Cid(), b.RawData()})
		if len(out) > 1<<20 {
			panic("runaway reader")
		}
	}
}

var plainFlip int

// runReader pushes input through one scanning reader of the real library.
func runReader(rd string, o readOpts, input []byte) string {
	noteCase("scan rd="+rd, o.String(), input)
	var roots []cid.Cid
	var n nexter
	switch rd {
	case "br-seek", "br-plain":
		var r io.Reader = bytes.NewReader(input)
		if rd == "br-plain" {
			// alternately a bare io.Reader and one that also offers ReadByte (bufio over a pipe):
			// both are plain streams for the library and for the model
			plainFlip++
			if plainFlip%2 == 0 {
				r = bufio.NewReaderSize(&plainReader{r}, 16)
			} else {
				r = &plainReader{r}
			}
		}
		br, err := carv2.NewBlockReader(r, o.opts()...)
		if err != nil {
			return openErr(o, err)
		}
		roots, n = br.Roots, br
	case "sk-seek", "sk-plain":
		// a pure SkipNext scan: the CIDs visited and how the iteration ended
		var r io.Reader = bytes.NewReader(input)
		if rd == "sk-plain" {
			r = &plainReader{r}
		}
		br, err := carv2.NewBlockReader(r, o.opts()...)
		if err != nil {
			return openErr(o, err)
		}
		var cs []cid.Cid
		var serr error
		for {
			m, err := br.SkipNext()
			if err != nil {
				serr = err
				break
			}
			cs = append(cs, m.Cid)
			if len(cs) > 1<<20 {
				panic("runaway reader")
			}
		}
		s := fmt.Sprintf("open=ok roots=%s cids=%s end=%s", cidsStr(br.Roots), cidsStr(cs), classify(serr))
		if !o.trusted {
			s += " sound=1"
		}
		return s
	case "v1":
		cr, err := carv2.VerifNewCarV1Reader(bytes.NewReader(input), o.zeroEOF, o.mh, o.ms)
		if err != nil {
			return openErr(o, err)
		}
		roots, n = cr.Header.Roots, cr
	case "root", "root-noerr":
		cr, err := car.NewCarReaderWithOptions(bytes.NewReader(input), car.WithErrorOnEmptyRoots(rd == "root"))
		if err != nil {
			return openErr(o, err)
		}
		roots, n = cr.Header.Roots, cr
	case "rootloadfast":
		// LoadCar into a store that offers PutMany (the batching path)
		ms := &batchMapStore{}
		h, err := car.LoadCar(context.Background(), ms, bytes.NewReader(input))
		if err != nil {
			if h == nil && len(ms.bs) == 0 {
				if _, herr := car.NewCarReader(bytes.NewReader(input)); herr != nil {
					return openErr(o, err)
				}
			}
			rs := rootsOf(input)
			return fmt.Sprintf("open=ok roots=%s blocks=%s end=%s sound=%d", cidsStr(rs), blocksStr(ms.bs), classify(err), b2i(sound(ms.bs)))
		}
		return fmt.Sprintf("open=ok roots=%s blocks=%s end=eof sound=%d", cidsStr(h.Roots), blocksStr(ms.bs), b2i(sound(ms.bs)))
	case "rootload":
		ms := &mapStore{}
		h, err := car.LoadCar(context.Background(), ms, bytes.NewReader(input))
		if err != nil {
			// LoadCar reports a mid-stream failure as an error after storing the blocks before it
			if h == nil && len(ms.bs) == 0 {
				if _, herr := car.NewCarReader(bytes.NewReader(input)); herr != nil {
					return openErr(o, err)
				}
			}
			rs := rootsOf(input)
			return fmt.Sprintf("open=ok roots=%s blocks=%s end=%s sound=%d", cidsStr(rs), blocksStr(ms.bs), classify(err), b2i(sound(ms.bs)))
		}
		return fmt.Sprintf("open=ok roots=%s blocks=%s end=eof sound=%d", cidsStr(h.Roots), blocksStr(ms.bs), b2i(sound(ms.bs)))
	default:
		panic("unknown reader " + rd)
	}
	bs, err := drain(n)
	s := fmt.Sprintf("open=ok roots=%s blocks=%s end=%s", cidsStr(roots), blocksStr(bs), classify(err))
	if !o.trusted {
		s += fmt.Sprintf(" sound=%d", b2i(sound(bs)))
	}
	return s
}

func openErr(o readOpts, err error) string {
	if o.trusted {
		return "open=" + classify(err)
	}
	return "open=" + classify(err) + " sound=1"
}

// mapStore is a car.Store that records puts one by one (no PutMany: the slow path).
type mapStore struct{ bs []Blk }

func (m *mapStore) Put(_ context.Context, b blocks.Block) error {
	m.bs = append(m.bs, Blk{b.Cid(), b.RawData()})
	return nil
}

// batchMapStore also offers PutMany: LoadCar then takes its batching path.
type batchMapStore struct{ mapStore }

func (m *batchMapStore) PutMany(_ context.Context, bs []blocks.Block) error {
	for _, b := range bs {
		m.bs = append(m.bs, Blk{b.Cid(), b.RawData()})
	}
	return nil
}

func rootsOf(input []byte) []cid.Cid {
	cr, err := car.NewCarReader(bytes.NewReader(input))
	if err != nil {
		return nil
	}
	return cr.Header.Roots
}
