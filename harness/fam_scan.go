package main

import (
	"bytes"
	"fmt"
	"io"

	blocks "github.com/ipfs/go-block-format"
	"github.com/ipfs/go-cid"
	carv2 "github.com/ipld/go-car/v2"
)

type readOpts struct {
	zeroEOF bool
	ms, mh  uint64
	trusted bool
}

func defaultReadOpts() readOpts { return readOpts{false, 8 << 20, 32 << 20, false} }

func (o readOpts) String() string {
	return fmt.Sprintf("z=%d ms=%d mh=%d tr=%d", b2i(o.zeroEOF), o.ms, o.mh, b2i(o.trusted))
}

func (o readOpts) opts() []carv2.Option {
	return []carv2.Option{carv2.ZeroLengthSectionAsEOF(o.zeroEOF), carv2.MaxAllowedSectionSize(o.ms),
		carv2.MaxAllowedHeaderSize(o.mh), carv2.WithTrustedCAR(o.trusted)}
}

type nexter interface {
	Next() (blocks.Block, error)
}

func drain(n nexter) ([]Blk, error) {
	var out []Blk
	for {
		b, err := n.Next()
		if err != nil {
			return out, err
		}
		out = append(out, Blk{b.Cid(), b.RawData()})
		if len(out) > 1<<20 {
			panic("runaway reader")
		}
	}
}

// runReader pushes input through one scanning reader of the real library.
func runReader(rd string, o readOpts, input []byte) string {
	var roots []cid.Cid
	var n nexter
	switch rd {
	case "br-seek", "br-plain":
		var r io.Reader = bytes.NewReader(input)
		if rd == "br-plain" {
			r = &plainReader{r}
		}
		br, err := carv2.NewBlockReader(r, o.opts()...)
		if err != nil {
			return openErr(o, err)
		}
		roots, n = br.Roots, br
	case "v1":
		cr, err := carv2.VerifNewCarV1Reader(bytes.NewReader(input), o.zeroEOF, o.mh, o.ms)
		if err != nil {
			return openErr(o, err)
		}
		roots, n = cr.Header.Roots, cr
	default:
		panic("unknown reader " + rd)
	}
	bs, err := drain(n)
	s := fmt.Sprintf("open=ok roots=%s blocks=%s end=%s", cidsStr(roots), blocksStr(bs), classify(err))
	if !o.trusted {
		s += fmt.Sprintf(" sound=%d", b2i(sound(bs)))
	}
	return s
}

func openErr(o readOpts, err error) string {
	if o.trusted {
		return "open=" + classify(err)
	}
	return "open=" + classify(err) + " sound=1"
}
