package main

import (
	"bytes"
	"context"
	"fmt"
	"os"

	"github.com/ipfs/go-cid"
	car "github.com/ipld/go-car"
	rootutil "github.com/ipld/go-car/util"
	carv2 "github.com/ipld/go-car/v2"
	"github.com/ipld/go-car/v2/blockstore"
	"github.com/ipld/go-car/v2/storage"
	"github.com/ipld/go-car/v2/storage/deferred"
	mh "github.com/multiformats/go-multihash"
)

// writerKinds: every writer the property names. api token -> how the file is produced.
var writerKinds = []string{"bs", "st", "stw", "sts", "defp", "defs", "root"}

// writeSession writes `bs` with one writer kind and reports per-put results and the final bytes.
// Script lines are the ordinary op lines; the model treats stw/sts/defp/defs as the storage
// machine and root as a CARv1 writer that keeps everything.
func writeSession(o *Out, kind string, wo wOpts, roots []cid.Cid, bs []Blk, seq int) []byte {
	ctx := context.Background()
	switch kind {
	case "bs", "st":
		st, err := openStore(kind, wo, roots, seq)
		o.Line(fmt.Sprintf("open api=%s %s roots=%s", kind, wo, rootsArg(roots)), "r="+classifyStore(err))
		if err != nil {
			return nil
		}
		defer st.cleanup()
		for i := 0; i < len(bs); {
			// the blockstore's batch entry point: a batch may repeat a block of the same batch
			if k := batchLen(kind, bs, i, seq); k > 0 {
				many := bs[i : i+k]
				o.Line("many b="+blocksStr(many), "r="+st.do("many", cid.Undef, nil, many))
				o.Count("write/bs-putmany")
				i += k
				continue
			}
			b := bs[i]
			o.Line(fmt.Sprintf("put c=%x d=%s", b.C.Bytes(), hexOr(b.D)), "r="+st.do("put", b.C, b.D, nil))
			i++
		}
		o.Line("finalize", "r="+st.do("finalize", cid.Undef, nil, nil))
		f := st.fileBytes()
		o.Line("file", fmt.Sprintf("file=%x", f))
		return f
	case "stw", "sts", "defp", "defs":
		mf := &memFile{}
		var buf bytes.Buffer
		var put func(c cid.Cid, d []byte) error
		var fin func() error
		var get func() []byte
		opts := wo.opts()
		switch kind {
		case "stw":
			w, err := storage.NewWritable(mf, roots, opts...)
			o.Line(fmt.Sprintf("open api=st %s roots=%s", wo, rootsArg(roots)), "r="+classifyStore(err))
			if err != nil {
				return nil
			}
			put = func(c cid.Cid, d []byte) error { return w.Put(ctx, string(c.Bytes()), d) }
			fin, get = w.Finalize, func() []byte { return mf.b }
		case "sts":
			wo.v1 = true
			w, err := storage.NewWritable(&plainWriter{&buf}, roots, wo.opts()...)
			o.Line(fmt.Sprintf("open api=st %s roots=%s", wo, rootsArg(roots)), "r="+classifyStore(err))
			if err != nil {
				return nil
			}
			put = func(c cid.Cid, d []byte) error { return w.Put(ctx, string(c.Bytes()), d) }
			fin, get = w.Finalize, buf.Bytes
		case "defp":
			p := tmpPath(fmt.Sprintf("def-%d.car", seq))
			os.Remove(p)
			w := deferred.NewDeferredCarWriterForPath(p, roots, opts...)
			o.Line(fmt.Sprintf("open api=st %s roots=%s", wo, rootsArg(roots)), "r=ok")
			put = func(c cid.Cid, d []byte) error { return w.Put(ctx, string(c.Bytes()), d) }
			fin = w.Close
			get = func() []byte { b, _ := os.ReadFile(p); os.Remove(p); return b }
		case "defs":
			wo.v1 = true
			w := deferred.NewDeferredCarWriterForStream(&plainWriter{&buf}, roots, wo.opts()...)
			o.Line(fmt.Sprintf("open api=st %s roots=%s", wo, rootsArg(roots)), "r=ok")
			put = func(c cid.Cid, d []byte) error { return w.Put(ctx, string(c.Bytes()), d) }
			fin, get = w.Close, buf.Bytes
		}
		if len(bs) == 0 && (kind == "defp" || kind == "defs") {
			// a deferred writer that never saw a Put writes nothing at all (C20); not a CAR
			return nil
		}
		for _, b := range bs {
			o.Line(fmt.Sprintf("put c=%x d=%s", b.C.Bytes(), hexOr(b.D)), "r="+classifyStore(put(b.C, b.D)))
		}
		o.Line("finalize", "r="+classifyStore(fin()))
		f := append([]byte{}, get()...)
		o.Line("file", fmt.Sprintf("file=%x", f))
		return f
	case "root":
		var buf bytes.Buffer
		err := car.WriteHeader(&car.CarHeader{Roots: roots, Version: 1}, &buf)
		ro := wOpts{codec: "mh", v1: true, sid: true, dup: true, mcs: 1 << 40}
		o.Line(fmt.Sprintf("open api=st %s roots=%s", ro, rootsArg(roots)), "r="+classifyStore(err))
		for _, b := range bs {
			o.Line(fmt.Sprintf("put c=%x d=%s", b.C.Bytes(), hexOr(b.D)), "r="+classifyStore(rootutil.LdWrite(&buf, b.C.Bytes(), b.D)))
		}
		o.Line("finalize", "r=ok")
		o.Line("file", fmt.Sprintf("file=%x", buf.Bytes()))
		return buf.Bytes()
	}
	panic(kind)
}

// batchLen: how many of the next blocks go into one PutMany (0 = a single Put). Derived from the
// session number and position only, so a script replays exactly.
func batchLen(kind string, bs []Blk, i, seq int) int {
	if kind == "bs" && wholeBatch {
		return len(bs) - i
	}
	if kind != "bs" || seq%2 == 0 {
		return 0
	}
	k := 1 + (seq*7+i*3)%4
	if k > len(bs)-i {
		k = len(bs) - i
	}
	return k
}

// wholeBatch: the fixed second case hands its whole block list (which repeats blocks) to one PutMany
var wholeBatch bool

type plainWriter struct{ w *bytes.Buffer }

func (p *plainWriter) Write(b []byte) (int, error) { return p.w.Write(b) }

// readBack pushes the finished file through every reader the property names.
func readBack(o *Out, file []byte, isV1 bool, hasRoots bool, seq int) {
	ro := defaultReadOpts()
	rds := []string{"br-seek", "br-plain", "payload-v1"}
	if isV1 {
		rds = append(rds, "root-noerr", "rootload0")
		if hasRoots {
			rds = append(rds, "v1", "root", "rootload")
		}
	}
	for _, rd := range rds {
		var res string
		switch rd {
		case "payload-v1":
			res = readPayloadV1(file, ro)
		case "rootload0":
			continue
		default:
			res = runReader(rd, ro, file)
		}
		o.Line(fmt.Sprintf("read rd=%s %s", rd, ro), res)
		o.Count("read/" + rd)
	}
	// random-access readers: read-only blockstore and readable storage, whole-CID keys
	p := tmpPath(fmt.Sprintf("ro-%d.car", seq))
	os.WriteFile(p, file, 0o644)
	defer os.Remove(p)
	o.Line("read rd=ro", readViaReadOnly(p))
	o.Line("read rd=st", readViaStorage(file))
	o.Count("read/ro")
	o.Count("read/st")
}

// readPayloadV1: v2 Reader -> DataReader -> internal CARv1 reader over the payload (needs roots) or BlockReader.
func readPayloadV1(file []byte, ro readOpts) string {
	r, err := carv2.NewReader(bytes.NewReader(file), ro.opts()...)
	if err != nil {
		return openErr(ro, err)
	}
	roots, err := r.Roots()
	if err != nil {
		return openErr(ro, err)
	}
	dr, err := r.DataReader()
	if err != nil {
		return openErr(ro, err)
	}
	br, err := carv2.NewBlockReader(dr, ro.opts()...)
	if err != nil {
		return openErr(ro, err)
	}
	bs, err := drain(br)
	return fmt.Sprintf("open=ok roots=%s blocks=%s end=%s sound=%d", cidsStr(roots), blocksStr(bs), classify(err), b2i(sound(bs)))
}

func readViaReadOnly(path string) string {
	ctx := context.Background()
	bs, err := blockstore.OpenReadOnly(path, carv2.UseWholeCIDs(true), carv2.StoreIdentityCIDs(true))
	if err != nil {
		return "open=" + classifyStore(err)
	}
	defer bs.Close()
	roots, err := bs.Roots()
	if err != nil {
		return "open=" + classifyStore(err)
	}
	ch, err := bs.AllKeysChan(ctx)
	if err != nil {
		return "open=" + classifyStore(err)
	}
	var out []Blk
	for k := range ch {
		b, err := bs.Get(ctx, k)
		if err != nil {
			return "open=ok get=" + classifyStore(err)
		}
		out = append(out, Blk{k, b.RawData()})
	}
	return fmt.Sprintf("open=ok roots=%s blocks=%s end=eof sound=%d", cidsStr(roots), blocksStr(out), b2i(sound(out)))
}

func readViaStorage(file []byte) string {
	ctx := context.Background()
	rc, err := storage.OpenReadable(bytes.NewReader(file), carv2.UseWholeCIDs(true), carv2.StoreIdentityCIDs(true))
	if err != nil {
		return "open=" + classifyStore(err)
	}
	br, err := carv2.NewBlockReader(bytes.NewReader(file))
	if err != nil {
		return "open=" + classifyStore(err)
	}
	var out []Blk
	for {
		m, err := br.SkipNext()
		if err != nil {
			break
		}
		d, err := rc.Get(ctx, string(m.Cid.Bytes()))
		if err != nil {
			return "open=ok get=" + classifyStore(err)
		}
		out = append(out, Blk{m.Cid, d})
	}
	return fmt.Sprintf("open=ok roots=%s blocks=%s end=eof sound=%d", cidsStr(rc.Roots()), blocksStr(out), b2i(sound(out)))
}

// boundaryBlocks: sections whose length sits exactly on a varint width boundary (127/128 and
// 16383/16384 bytes of CID + data), where framing code that sizes buffers from the length can slip.
func boundaryBlocks(g *Gen) []Blk { return blocksOfSectionLen(g, []int{127, 128, 129, 16383, 16384, 16385}) }

// bufferBoundaryBlocks: sections whose CID + data length sits on a power of two (the sizes scratch
// buffers, pages and copy chunks come in), one below and one or two above.
func bufferBoundaryBlocks(g *Gen, thorough bool) []Blk {
	Ls := []int{255, 256, 257, 511, 512, 513, 1023, 1024, 1025, 2047, 2048, 2049, 4094, 4095, 4096, 4097, 4098,
		8191, 8192, 8193, 32767, 32768, 32769}
	if thorough {
		Ls = append(Ls, 65535, 65536, 65537, 131071, 131072, 131073)
	}
	return blocksOfSectionLen(g, Ls)
}

func blocksOfSectionLen(g *Gen, Ls []int) []Blk {
	var out []Blk
	for _, L := range Ls {
		d := g.bytes(L - 36)
		h, _ := mh.Sum(d, mh.SHA2_256, -1)
		out = append(out, Blk{cid.NewCidV1(cid.Raw, h), d})
	}
	return out
}

func famC01(g *Gen, o *Out, n int, thorough bool) {
	seq := 0
	for c := -2; c < n; c++ {
		maxB := 6
		if thorough {
			maxB = 12
		}
		bs := g.Blocks(maxB)
		if len(bs) > 0 && g.pick(3) == 0 {
			// an immediate or near repeat, so that one PutMany batch carries the same block twice
			i := g.pick(len(bs))
			j := i + 1 + g.pick(2)
			if j > len(bs) {
				j = len(bs)
			}
			bs = append(bs[:j:j], append([]Blk{bs[i]}, bs[j:]...)...)
		}
		if c == -1 {
			bs = boundaryBlocks(g)
		}
		if c == -2 {
			bs = bufferBoundaryBlocks(g, thorough)
		}
		wholeBatch = c == 0
		if c == 0 {
			// fixed: one batch that repeats a block next to itself, at a distance, and under another codec
			mk := func(d []byte) Blk {
				h, _ := mh.Sum(d, mh.SHA2_256, -1)
				return Blk{cid.NewCidV1(cid.Raw, h), d}
			}
			b1, b2, b3 := mk([]byte("one")), mk([]byte("two, a little longer")), mk([]byte{})
			alt := Blk{cid.NewCidV1(cid.DagCBOR, b1.C.Hash()), b1.D}
			bs = []Blk{b1, b1, b2, b3, b1, alt, b2}
		}
		o.HashBlocks(bs)
		roots := g.Roots(bs)
		wo := g.wOpts()
		wo.mcs = 2048
		for _, kind := range writerKinds {
			if !thorough && g.pick(2) == 0 && c >= 1 {
				continue
			}
			seq++
			w := wo
			if kind == "root" {
				w.v1 = true
			}
			f := writeSession(o, kind, w, roots, bs, seq)
			o.Count("write/" + kind)
			if f == nil {
				continue
			}
			isV1 := w.v1 || kind == "sts" || kind == "defs" || kind == "root"
			readBack(o, f, isV1, len(roots) > 0, seq)
		}
	}
	if workDir != "" {
		os.RemoveAll(workDir)
	}
}
