package main

import (
	"strings"
	"bytes"
	"context"
	"encoding/hex"
	"fmt"
	"io"
	"os"
	"runtime"
	"time"

	"github.com/ipfs/go-cid"
	car "github.com/ipld/go-car"
	carv2 "github.com/ipld/go-car/v2"
	"github.com/ipld/go-car/v2/blockstore"
	"github.com/ipld/go-car/v2/index"
	"github.com/ipld/go-car/v2/storage"
	mh "github.com/multiformats/go-multihash"
)

// entry points that parse CAR data; each returns a result class for the ones that have a model
// ("r=…") or an informational class ("_r=…").
var c09Entries = []string{"next-seek", "next-plain", "skip-seek", "skip-plain", "inspect-full", "inspect-quick",
	"genindex-seek", "genindex-plain", "readorgen", "indexread", "readonly", "readable", "replaceroots", "extract", "root", "skip-dr", "next-dr",
	"readversion", "indexreader", "genindexfile", "openreader"}

// guarded runs f, catching panics, timing it and measuring the bytes it allocates.
func guarded(f func() string) (res string, panicked bool, alloc uint64, dur time.Duration) {
	var m0, m1 runtime.MemStats
	runtime.ReadMemStats(&m0)
	t0 := time.Now()
	func() {
		defer func() {
			if r := recover(); r != nil {
				panicked = true
				res = fmt.Sprintf("_panic=%.40q", fmt.Sprint(r))
			}
		}()
		res = f()
	}()
	dur = time.Since(t0)
	runtime.ReadMemStats(&m1)
	return res, panicked, m1.TotalAlloc - m0.TotalAlloc, dur
}

func runEntry(ep string, ro readOpts, in []byte, seq int) string {
	ctx := context.Background()
	opts := ro.opts()
	switch ep {
	case "next-seek", "next-plain":
		rd := "br-seek"
		if ep == "next-plain" {
			rd = "br-plain"
		}
		return runReader(rd, ro, in)
	case "skip-seek", "skip-plain":
		var src io.Reader = bytes.NewReader(in)
		if ep == "skip-plain" {
			src = &plainReader{src}
		}
		all := make([]byte, 0, 4000)
		for i := 0; i < 4000; i++ {
			all = append(all, 's')
		}
		return runChoices(src, ro, string(all))
	case "skip-dr", "next-dr":
		// compositions of public entry points: the payload reader handed out by Reader.DataReader,
		// walked with SkipNext / Next (not modelled: totality and bounds only)
		rd, err := carv2.NewReader(bytes.NewReader(in), opts...)
		if err != nil {
			return "_r=" + classifyIdx(err)
		}
		dr, err := rd.DataReader()
		if err != nil {
			return "_r=" + classifyIdx(err)
		}
		br, err := carv2.NewBlockReader(dr, opts...)
		if err != nil {
			return "_r=" + classifyIdx(err)
		}
		n := 0
		for ; n < 4000; n++ {
			if ep == "skip-dr" {
				_, err = br.SkipNext()
			} else {
				_, err = br.Next()
			}
			if err != nil {
				break
			}
		}
		return fmt.Sprintf("_r=%s _n=%d", classifyIdx(err), n)
	case "inspect-full":
		return runInspect(in, ro, true)
	case "inspect-quick":
		return runInspect(in, ro, false)
	case "genindex-seek", "genindex-plain":
		var src io.Reader = bytes.NewReader(in)
		if ep == "genindex-plain" {
			src = &plainReader{src}
		}
		idx, err := carv2.GenerateIndex(src, opts...)
		if err != nil {
			return "open=" + classifyIdx(err)
		}
		return "open=ok each=" + eachIndex(idx)
	case "readorgen":
		idx, err := carv2.ReadOrGenerateIndex(bytes.NewReader(in), opts...)
		if err != nil {
			return "_r=" + classifyIdx(err)
		}
		return "_r=ok _each=" + fmt.Sprint(len(eachIndex(idx)))
	case "indexread":
		idx, err := index.ReadFrom(bytes.NewReader(in))
		if err != nil {
			return "_r=err"
		}
		n := 0
		if it, ok := idx.(index.IterableIndex); ok {
			it.ForEach(func(m mh.Multihash, o uint64) error { n++; return nil })
		}
		return fmt.Sprintf("_r=ok _n=%d", n)
	case "readonly":
		bs, err := blockstore.NewReadOnly(bytes.NewReader(in), nil, opts...)
		if err != nil {
			if os.Getenv("VERIF_DEBUG") != "" {
				fmt.Fprintln(os.Stderr, "readonly open error:", err)
			}
			return "_r=" + classifyIdx(err)
		}
		ch, err := bs.AllKeysChan(ctx)
		if err != nil && os.Getenv("VERIF_DEBUG") != "" {
			fmt.Fprintln(os.Stderr, "readonly AllKeysChan error:", err)
		}
		n := 0
		if err == nil {
			for k := range ch {
				bs.Has(ctx, k)
				bs.Get(ctx, k)
				bs.GetSize(ctx, k)
				n++
			}
		}
		// a store must still close after whatever the queries ran into (a lock left held shows here)
		cerr := make(chan error, 1)
		go func() { cerr <- bs.Close() }()
		select {
		case <-cerr:
		case <-time.After(20 * time.Second):
			panic("ReadOnly.Close does not return")
		}
		return fmt.Sprintf("_r=ok _n=%d", n)
	case "readable":
		rc, err := storage.OpenReadable(bytes.NewReader(in), opts...)
		if err != nil {
			return "_r=" + classifyIdx(err)
		}
		for _, r := range rc.Roots() {
			rc.Has(ctx, string(r.Bytes()))
			rc.Get(ctx, string(r.Bytes()))
		}
		// every key the store's own index lists: Has, Get and a drained GetStream (forged length
		// prefixes are only consulted here, not at open time)
		n := 0
		if it, ok := rc.Index().(index.IterableIndex); ok {
			var keys []mh.Multihash
			it.ForEach(func(m mh.Multihash, o uint64) error {
				if len(keys) < 2000 {
					keys = append(keys, m)
				}
				return nil
			})
			for _, m := range keys {
				k := string(cid.NewCidV1(cid.Raw, m).Bytes())
				rc.Has(ctx, k)
				rc.Get(ctx, k)
				if s, err := rc.GetStream(ctx, k); err == nil {
					io.Copy(io.Discard, io.LimitReader(s, 64<<20))
					s.Close()
				}
				n++
			}
		}
		return fmt.Sprintf("_r=ok _k=%d", n)
	case "readversion":
		v, err := carv2.ReadVersion(bytes.NewReader(in), opts...)
		if err != nil {
			return "_r=" + classifyIdx(err)
		}
		return fmt.Sprintf("_r=ok _v=%d", v)
	case "indexreader":
		// the index as the container hands it out, then the index parser on it
		rd, err := carv2.NewReader(bytes.NewReader(in), opts...)
		if err != nil {
			return "_r=" + classifyIdx(err)
		}
		ir, err := rd.IndexReader()
		if err != nil || ir == nil {
			return "_r=noindex"
		}
		idx, err := index.ReadFrom(ir)
		if err != nil {
			return "_r=err"
		}
		n := 0
		if it, ok := idx.(index.IterableIndex); ok {
			it.ForEach(func(m mh.Multihash, o uint64) error { n++; return nil })
		}
		return fmt.Sprintf("_r=ok _n=%d", n)
	case "genindexfile", "openreader":
		p := tmpPath(fmt.Sprintf("c09-of-%d.car", seq))
		os.WriteFile(p, in, 0o644)
		defer os.Remove(p)
		if ep == "genindexfile" {
			idx, err := carv2.GenerateIndexFromFile(p, opts...)
			if err != nil {
				return "_r=" + classifyIdx(err)
			}
			return "_r=ok _each=" + fmt.Sprint(len(eachIndex(idx)))
		}
		rd, err := carv2.OpenReader(p, opts...)
		if err != nil {
			return "_r=" + classifyIdx(err)
		}
		defer rd.Close()
		rs, rerr := rd.Roots()
		_, ierr := rd.Inspect(false)
		return fmt.Sprintf("_r=ok _roots=%d _rerr=%s _inspect=%s", len(rs), okOrErr(rerr), okOrErr(ierr))
	case "replaceroots":
		p := tmpPath(fmt.Sprintf("c09-rr-%d.car", seq))
		os.WriteFile(p, in, 0o644)
		defer os.Remove(p)
		err := carv2.ReplaceRootsInFile(p, nil, opts...)
		return "_r=" + classifyIdx(err)
	case "extract":
		p := tmpPath(fmt.Sprintf("c09-ex-%d.car", seq))
		d := tmpPath(fmt.Sprintf("c09-ex-%d.out", seq))
		os.WriteFile(p, in, 0o644)
		defer os.Remove(p)
		defer os.Remove(d)
		err := carv2.ExtractV1File(p, d, opts...)
		return "_r=" + classifyIdx(err)
	case "root":
		cr, err := car.NewCarReader(bytes.NewReader(in))
		if err != nil {
			return "_r=err"
		}
		n := 0
		for {
			if _, err := cr.Next(); err != nil {
				// a caller that logs the error and asks again must get an error or an end, not a crash
				cr.Next()
				cr.Next()
				break
			}
			n++
		}
		return fmt.Sprintf("_r=ok _n=%d", n)
	}
	panic(ep)
}

func uvarintAt(b []byte, p int) (uint64, int) {
	var x uint64
	var s uint
	for i := 0; p+i < len(b) && i < 10; i++ {
		c := b[p+i]
		if c < 0x80 {
			return x | uint64(c)<<s, i + 1
		}
		x |= uint64(c&0x7f) << s
		s += 7
	}
	return 0, -1
}

// c09IndexFields walks a serialized index (either sorted codec) and returns the offsets of its
// 4-byte fields (bucket counts, record widths) and 8-byte fields (hash codes, data lengths).
func c09IndexFields(idx []byte) (u32s, u64s []int) {
	if len(idx) < 2 {
		return
	}
	p := 2 // codec varint 0x0400 / 0x0401 is two bytes
	multi := func() bool {
		if p+4 > len(idx) {
			return false
		}
		n := int(uint32(idx[p]) | uint32(idx[p+1])<<8 | uint32(idx[p+2])<<16 | uint32(idx[p+3])<<24)
		u32s = append(u32s, p)
		p += 4
		for i := 0; i < n && i < 64; i++ {
			if p+12 > len(idx) {
				return false
			}
			u32s = append(u32s, p)
			u64s = append(u64s, p+4)
			dl := int(leU64(idx[p+4 : p+12]))
			p += 12
			if dl < 0 || p+dl > len(idx) {
				return false
			}
			p += dl
		}
		return true
	}
	if idx[0] == 0x80 { // car-index-sorted
		multi()
		return
	}
	if p+4 > len(idx) {
		return
	}
	n := int(uint32(idx[p]) | uint32(idx[p+1])<<8)
	u32s = append(u32s, p)
	p += 4
	for i := 0; i < n && i < 64; i++ {
		if p+8 > len(idx) {
			return
		}
		u64s = append(u64s, p)
		p += 8
		if !multi() {
			return
		}
	}
	return
}

// c09MutateIndex overwrites one structural field of a serialized index with an extreme value.
func (g *Gen) c09MutateIndex(idx []byte) []byte {
	m := append([]byte{}, idx...)
	u32s, u64s := c09IndexFields(m)
	if len(u32s) == 0 {
		return m
	}
	if len(u64s) > 0 && g.pick(3) == 0 {
		at := u64s[g.pick(len(u64s))]
		v := []uint64{0, 1, 7, 1 << 31, 1 << 40, 1<<63 - 1, ^uint64(0), uint64(len(idx))}[g.pick(8)]
		for k := 0; k < 8; k++ {
			m[at+k] = byte(v >> (8 * k))
		}
		return m
	}
	at := u32s[g.pick(len(u32s))]
	v := []uint32{0, 1, 7, 8, 9, 1 << 20, 1<<31 - 1, 1 << 31, ^uint32(0)}[g.pick(9)]
	for k := 0; k < 4; k++ {
		m[at+k] = byte(v >> (8 * k))
	}
	return m
}

// structural mutations aimed at the numbers parsers trust: length prefixes, header fields,
// index counts / widths / lengths.
func (g *Gen) c09Mutate(arch []byte, ver int) []byte {
	m := append([]byte{}, arch...)
	big := [][]byte{{0xff, 0xff, 0xff, 0xff, 0x0f}, {0x80, 0x80, 0x80, 0x80, 0x80, 0x80, 0x80, 0x80, 0x7f},
		{0xff, 0xff, 0xff, 0xff, 0xff, 0xff, 0xff, 0xff, 0xff, 0x01}, {0x80, 0x80, 0x01}, {0x00}}
	switch g.pick(7) {
	case 0: // replace a byte run by a huge / odd varint
		i := g.pick(len(m) + 1)
		v := big[g.pick(len(big))]
		m = append(append(append([]byte{}, m[:i]...), v...), m[min(len(m), i+1+g.pick(3)):]...)
	case 1: // overwrite 8 bytes of the v2 header / index lengths with extreme values
		if len(m) > 60 {
			i := 11 + 8*g.pick(5)
			if g.pick(2) == 0 {
				i = len(m) - 8 - g.pick(min(60, len(m)-8))
			}
			vals := []uint64{0, 1, 1 << 40, 1<<63 - 1, 1 << 63, ^uint64(0), uint64(len(m)), uint64(len(m)) + 1}
			if ver == 2 {
				// values that are plausible offsets INTO the file: inside the pragma, the header, the payload
				// window, right at its ends (an index offset inside the payload, a data offset inside the index …)
				dOff, dSize := leU64(arch[27:35]), leU64(arch[35:43])
				vals = append(vals, 5, 11, 50, 51, 52, dOff+1, dOff+dSize/2, dOff+dSize-1, dOff+dSize, dOff+dSize+1,
					uint64(g.pick(len(m))), uint64(g.pick(len(m))))
			}
			v := vals[g.pick(len(vals))]
			for k := 0; k < 8 && i+k < len(m); k++ {
				m[i+k] = byte(v >> (8 * k))
			}
		}
	case 2:
		m = m[:g.pick(len(m)+1)]
	case 3:
		for t := 0; t < 1+g.pick(4) && len(m) > 0; t++ {
			m[g.pick(len(m))] = byte(g.pick(256))
		}
	case 4:
		m = append(m, g.bytes(g.pick(30))...)
	case 5:
		m = g.bytes(g.pick(120))
	default:
		a, b := g.pick(len(m)+1), g.pick(len(m)+1)
		if a > b {
			a, b = b, a
		}
		m = append(append([]byte{}, m[:a]...), m[b:]...)
	}
	return m
}

func famC09(g *Gen, o *Out, n int, thorough bool) {
	seq := 0
	lastCase := tmpPath("c09-current-case.txt")
	for c := 0; c < n; c++ {
		_, bs, ver, _, arch, _ := genArchive(g, 4)
		o.HashBlocks(bs)
		var idxFile []byte
		if ver == 2 {
			io_ := leU64(arch[43:51])
			if io_ > 0 && int(io_) <= len(arch) {
				idxFile = arch[io_:]
			}
		}
		inputs := [][]byte{arch}
		for i := 0; i < 8; i++ {
			inputs = append(inputs, g.c09Mutate(arch, ver))
		}
		if ver == 2 && len(arch) > 60 {
			// the inner CARv1 header's version byte changed (the container and its index stay intact)
			base := int(leU64(arch[27:35]))
			if base < len(arch) && arch[base] < 0x80 && base+int(arch[base]) < len(arch) {
				for _, v := range []byte{2, 3, 0, 4} { // several, so that some meet the default limits
					m := append([]byte{}, arch...)
					m[base+int(arch[base])] = v
					inputs = append(inputs, m)
				}
				o.Count("input/inner-version")
			}
		}
		// a payload window announced SHORTER than the inner header it starts with (DataSize forged to a few bytes,
		// to just below / at / above the header length, and 64 and more below it): arithmetic on
		// "DataSize - header length" goes negative. Also on an archive with three roots (a header of 140 bytes).
		{
			v2s := [][]byte{}
			if ver == 2 && len(arch) > 60 {
				v2s = append(v2s, arch)
			}
			if c == 0 && len(bs) > 0 {
				r3 := []cid.Cid{bs[0].C, bs[len(bs)-1].C, bs[0].C}
				v2s = append(v2s, writeAll(r3, bs, false))
			}
			for _, a := range v2s {
				base := int(leU64(a[27:35]))
				if base >= len(a) || a[base] >= 0x80 {
					continue
				}
				hl := uint64(a[base]) + 1
				for _, v := range []uint64{1, 7, 36, hl - 1, hl, hl + 1} {
					m := append([]byte{}, a...)
					for k := 0; k < 8; k++ {
						m[35+k] = byte(v >> (8 * k))
					}
					inputs = append(inputs, m)
				}
				if hl > 70 {
					for _, v := range []uint64{hl - 64, hl - 65, hl - 70} {
						m := append([]byte{}, a...)
						for k := 0; k < 8; k++ {
							m[35+k] = byte(v >> (8 * k))
						}
						inputs = append(inputs, m)
					}
				}
				o.Count("input/short-datasize")
			}
		}
		if idxFile != nil { // the same archive with one structural field of its embedded index overwritten
			for i := 0; i < 3; i++ {
				io_ := int(leU64(arch[43:51]))
				inputs = append(inputs, append(append([]byte{}, arch[:io_]...), g.c09MutateIndex(idxFile)...))
			}
		}
		// structure-aware: every section's (and the header's) length prefix replaced by an extreme varint,
		// including ones that make "length - cidLength" negative and point back at a section start
		{
			base := 0
			if ver == 2 {
				base = int(leU64(arch[27:35]))
			}
			starts := []int{base}
			p := base
			if hl, n := uvarintAt(arch, p); n > 0 {
				p += n + int(hl)
				for _, b := range bs {
					starts = append(starts, p)
					p += len(sectionOf(b))
				}
			}
			for si, st := range starts {
				if !thorough && g.pick(2) == 0 && c >= 4 {
					continue
				}
				_, n := uvarintAt(arch, st)
				if n <= 0 {
					continue
				}
				vals := []uint64{1 << 63, ^uint64(0), ^uint64(0) - 9, 1<<63 - 1, 1 << 62, 0}
				// a length whose int64 value, minus a 36-byte CID, rewinds exactly onto this section
				neg := func(k int) uint64 { return ^uint64(k) + 1 }
				vals = append(vals, neg(10), neg(n), neg(n+1), neg(36))
				// plausible lies: just over the default limits, a quarter of a gigabyte, shorter than the CID
				// that follows, one off the true length
				tl, _ := uvarintAt(arch, st)
				vals = append(vals, 8<<20+1, 9<<20, 32<<20+1, 1<<28, 1<<31, 10, 31, 35, 36, tl+1, tl-1)
				pick := []uint64{vals[g.pick(len(vals))]}
				if c < 4 && (si == 1 || si == len(starts)-1) {
					pick = vals // the fixed corpus archives get every value, at the first and the last section
				}
				for _, v := range pick {
					enc := make([]byte, 0, 10)
					for v >= 0x80 {
						enc = append(enc, byte(v)|0x80)
						v >>= 7
					}
					enc = append(enc, byte(v))
					inputs = append(inputs, append(append(append([]byte{}, arch[:st]...), enc...), arch[st+n:]...))
				}
			}
		}
		for _, in := range inputs {
			ro := defaultReadOpts()
			ro.zeroEOF = g.pick(3) == 0
			switch g.pick(4) {
			case 0: // small limits so that "over the limit" is cheap to produce
				ro.ms, ro.mh = uint64(64+g.pick(200)), uint64(64+g.pick(400))
			case 1: // the smallest configurable limits: 0 and 1 are limits, not "use the default"
				if g.pick(2) == 0 {
					ro.ms = uint64(g.pick(2))
				} else {
					ro.mh = uint64(g.pick(2))
				}
			}
			refSections(in, o.Hash)
			for _, ep := range c09Entries {
				input := in
				if ep == "indexread" {
					if idxFile == nil {
						continue
					}
					input = g.c09Mutate(idxFile, 0)
					if g.pick(2) == 0 {
						input = g.c09MutateIndex(idxFile)
					}
				}
				seq++
				os.WriteFile(lastCase, []byte(fmt.Sprintf("ep=%s %s in=%s\n", ep, ro, hex.EncodeToString(input))), 0o644)
				res, panicked, alloc, dur := guarded(func() string { return runEntry(ep, ro, input, seq) })
				// allocation bound: the configured limits plus an amount proportional to the input
				bound := ro.mh + ro.ms + 4096*uint64(len(input)) + (4 << 20)
				if ep == "root" {
					// the root module's reader takes no options: its limit is the built-in
					// util.MaxAllowedSectionSize (32 MiB), not the limits of this line
					bound = (32 << 20) + 4096*uint64(len(input)) + (4 << 20)
				}
				line := fmt.Sprintf("parse ep=%s %s in=%s", ep, ro, hexOr(input))
				o.Line(line, fmt.Sprintf("%s panic=%d allocok=%d slow=%d _alloc=%d", res, b2i(panicked), b2i(alloc <= bound), b2i(dur > 5*time.Second), alloc))
				o.Count(ep)
			}
		}
		// limits are exact, at every entry point and for both container versions: a header / section of
		// exactly the limit is accepted, one byte more is rejected; the two limits are set apart so
		// that using the wrong one shows
		for _, which := range []string{"header", "section"} {
			hp := 0
			if ver == 2 {
				hp = int(leU64(arch[27:35]))
			}
			if len(bs) == 0 || arch[hp] >= 0x80 || sectionOf(bs[0])[0] >= 0x80 {
				break
			}
			hdrLen := int(arch[hp])
			secLen := len(sectionOf(bs[0])) - 1 // one-byte varint for these sizes
			for _, d := range []int{-1, 0, 1, -1000000} {
				r2 := defaultReadOpts()
				if d == -1000000 { // a configured limit of zero
					if which == "header" {
						d = -hdrLen
					} else {
						d = -secLen
					}
				}
				if which == "header" {
					r2.mh = uint64(hdrLen + d)
					if g.pick(2) == 0 {
						r2.ms = uint64(max(0, hdrLen+d-2+4*g.pick(2)))
					}
				} else {
					r2.ms = uint64(secLen + d)
					if g.pick(2) == 0 {
						r2.mh = uint64(hdrLen + 300)
					}
				}
				for _, ep := range c09Entries {
					if ep == "indexread" || (!thorough && g.pick(3) != 0) {
						continue
					}
					seq++
					os.WriteFile(lastCase, []byte(fmt.Sprintf("ep=%s %s in=%s\n", ep, r2, hex.EncodeToString(arch))), 0o644)
					res, panicked, alloc, _ := guarded(func() string { return runEntry(ep, r2, arch, seq) })
					bound := r2.mh + r2.ms + 4096*uint64(len(arch)) + (4 << 20)
					if ep == "root" {
						bound = (32 << 20) + 4096*uint64(len(arch)) + (4 << 20)
					}
					lim := "none"
					if strings.Contains(res, "hdrtoolarge") {
						lim = "hdr"
					} else if strings.Contains(res, "toolarge") {
						lim = "sec"
					}
					o.Line(fmt.Sprintf("parse ep=%s %s lim=1 in=%s", ep, r2, hexOr(arch)),
						fmt.Sprintf("%s panic=%d allocok=%d slow=0 _alloc=%d _lim=%s", res, b2i(panicked), b2i(alloc <= bound), alloc, lim))
					o.Count("limit/" + which + "/" + ep)
				}
			}
		}
	}
	os.Remove(lastCase)
	if workDir != "" {
		os.RemoveAll(workDir)
	}
}
