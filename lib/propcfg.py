"""Per-property configuration: script families (name, quick n, thorough n), trusted-base notes,
and the signature function that labels a failing case for known_findings.jsonl."""

PROPS = {
    'C02': {
        'families': [('c02', 6, 40)],
        'rule': 'per generated archive (real writers, block alphabet of the property): EVERY truncation offset up to the end of the payload and a byte flip at EVERY offset, plus raw/spliced/mutated byte strings, through the v2 BlockReader (seekable and plain source) and the internal CARv1 reader; distinct = distinct script text; non-trivial = executed against implementation and model',
        'trusted': ['hash functions as parameter H; driver SHA-256 validated against go-multihash on every generated block',
                    'refmt cbor decoding outside the canonical header subset (model declines, counted in model_declined)'],
        'assumptions': ['corruption detection (scan_corrupt) assumes the changed block no longer verifies: H c d\' != digest (no hash collision), stated as an explicit hypothesis'],
    },
}


def signature(pid, script, I, S):
    """Deterministic label of WHAT fails, from structural features of the failing case."""
    fam = script.split(' ', 1)[0]
    toks = dict(t.split('=', 1) for t in script.split()[1:] if '=' in t)
    if pid == 'C02':
        if 'trunc' in toks:
            return 'C02/truncation-not-reported'
        if 'flip' in toks:
            return 'C02/corruption-not-reported'
        return 'C02/unsound-block-returned'
    return f'{pid}/{fam}'
