"""Per-property configuration: script families (name, quick n, thorough n), trusted-base notes,
and the signature function that labels a failing case for known_findings.jsonl."""

PROPS = {
    'C03': {
        'families': [('c03', 60, 600)],
        'rule': 'generated archives (real writers; duplicates, equal digest under different hash codes, identity CIDs, CIDv0, CARv1 with optional null padding / CARv2 with data padding) x {bytes.Reader, plain reader} x {car-index-sorted, car-multihash-index-sorted, insertion index} x {StoreIdentityCIDs, ZeroLengthSectionAsEOF, MaxIndexCidSize}; GetAll/GetFirst for every present CID, codec/hash-code variants and absent CIDs, ForEach where offered; distinct = distinct script text',
        'trusted': ['GoLLRB as an insertion-stable ordered multiset', 'Go sort.Sort instability is canonicalised away (entries with equal digest compared as sorted offset lists)'],
        'assumptions': ['lookup correctness of the binary search (GetAll over a loaded index) is tied differentially, not yet by a theorem (see level_note)'],
    },
    'C02': {
        'families': [('c02', 6, 40)],
        'rule': 'per generated archive (real writers, block alphabet of the property): EVERY truncation offset up to the end of the payload and a byte flip at EVERY offset, plus raw/spliced/mutated byte strings, through the v2 BlockReader (seekable and plain source) and the internal CARv1 reader; distinct = distinct script text; non-trivial = executed against implementation and model',
        'trusted': ['hash functions as parameter H; driver SHA-256 validated against go-multihash on every generated block',
                    'refmt cbor decoding outside the canonical header subset (model declines, counted in model_declined)'],
        'assumptions': ['corruption detection (scan_corrupt) assumes the changed block no longer verifies: H c d\' != digest (no hash collision), stated as an explicit hypothesis'],
    },
}


def signature(pid, script, I, S):
    """Deterministic label of WHAT fails, from structural features of the failing case."""
    fam = script.split(' ', 1)[0]
    toks = dict(t.split('=', 1) for t in script.split()[1:] if '=' in t)
    if pid == 'C02':
        if 'trunc' in toks:
            return 'C02/truncation-not-reported'
        if 'flip' in toks:
            return 'C02/corruption-not-reported'
        return 'C02/unsound-block-returned'
    if pid == 'C03':
        return 'C03/' + toks.get('kind', '?') + '-' + ('v' + toks.get('ver', '?')) + '-index-differs-from-reference-scan'
    return f'{pid}/{fam}'
