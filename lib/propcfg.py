"""Per-property configuration: script families (name, quick n, thorough n), trusted-base notes,
and the signature function that labels a failing case for known_findings.jsonl."""

PROPS = {
    'C19': {
        'families': [('c19', 20, 200)],
        'rule': 'generated valid archives (CARv1; CARv2 with / without data padding, with either index codec, index-less; identity CIDs, repeated blocks, same hash under several codecs, long CIDs, roots among the blocks or not) fed to the BUILT car binary: index x {multihash-sorted, sorted, none} and --version 1, index create x codec, detach-index, list, get-block (present key, same hash under another codec, absent key), filter x {inverse} x --version {1,2} with random CID sets incl. absent CIDs, filter --append onto a first selection (and its refusals), get-dag x --version {1,2} x {strict, root given or taken from the archive} over random dag-cbor/raw DAGs packed shuffled, with strangers and sometimes a missing block (the load sequence of the engine recorded by an independent walk), concat of 2-3 archives x --version {1,2}; every output path absent / an older shorter file / an older longer file; every emitted archive is then judged by the binary\'s own inspect --full and verify; the model must predict every output byte for byte and both verdicts; S: the output computed from the block-list description (payload unchanged, index = regenerated index, selected blocks in source order, concatenated sequences under the first roots), inspect accepts, verify accepts iff the roots are among the blocks; distinct = distinct script text',
        'trusted': ['urfave/cli argument parsing', 'the process boundary (exit status, files) of the built binary'],
        'assumptions': ['inputs are valid archives without null padding (the quantifier of the property)', 'get-dag is not modelled (its traversal is the C15 engine; its writers are the C04/C05 store and the root-module SelectiveCar of C15)'],
    },
    'C18': {
        'families': [('c18', 25, 100)],
        'rule': 'random source trees on disk (regular files of 0 B .. several 256 KiB chunks, nested directories, empty directories, symlinks with relative / absolute / dangling targets, unicode and odd names; thorough: one directory wide enough to be HAMT-sharded) x --version {1,2} x --no-wrap / wrapped with 1-3 arguments (directories and plain files) packed by the BUILT car binary; the engine (BuildUnixFSRecursive) is replayed in process to record the blocks in put order and the root; the model session (proxy root, those puts, Finalize, ReplaceRootsInFile) must predict the archive the binary wrote BYTE FOR BYTE; car root must print the header root = the engine root; the archive is extracted by the binary from the file or from a pipe on stdin into an empty directory and the model (fed the recorded engine trace) must predict the whole extracted tree, which S requires to equal the source tree (names, contents, link targets); distinct = distinct script text',
        'trusted': ['go-unixfsnode: BuildUnixFSRecursive / Reify / file reassembly (parameters: recorded block sequence and recorded trace; that the trace of the built DAG denotes the source tree is checked on every run, not proved)', 'the file-system model (see C17)'],
        'assumptions': ['entry names are valid file names (no separator, not . or ..), unique per directory: true of every tree read from a file system', 'file modes, ownership and timestamps are not part of the tree (UnixFS as written by car create does not carry them)'],
    },
    'C17': {
        'families': [('c17', 150, 1500)],
        'rule': 'random UnixFS DAGs built block by block (plain and HAMT-sharded directories, raw / inline / chunked files incl. a chunk missing from the archive, symlinks, absent blocks, undecodable nodes, nesting depth <= 3) over a hostile name alphabet (.., ../x, a/b, /abs, empty, ., x/../.., repeated names, a symlink followed by an entry of the same name) and hostile symlink targets (absolute into the sandbox, relative escapes, dangling, ., .., /), 1-3 roots incl. file / raw / missing roots, CARv1 and CARv2; extracted by lib.ExtractToDir root by root (the CLI loop) into a real sandbox directory: output directory empty / pre-populated with files, directories and symlinks / reached through a symlink / missing / a regular file; the engine trace (what go-unixfsnode hands to extractDir) is recorded by a dry walk and given to the model, which must predict the verdict and the WHOLE resulting tree (names, kinds, contents, link targets) of the sandbox; S: nothing outside the resolved output directory differs from the snapshot taken before; distinct = distinct script text',
        'trusted': ['the file-system model = Linux semantics of mkdir/open(O_CREAT|O_TRUNC)/symlink/stat/lstat/readlink for trees of directories, files and symlinks (validated on every run: the model predicts the full sandbox tree of the real extraction)', 'go-unixfsnode / go-codec-dagpb (the engine is a parameter: its trace is an input of the model)'],
        'assumptions': ['no hard links, mount points or bind mounts inside the output directory; nobody else modifies the tree during extraction; names without NUL bytes and within NAME_MAX; absolute output directory'],
    },
    'C15': {
        'families': [('c15', 40, 400)],
        'rule': 'random DAGs (dag-cbor nodes with raw leaves, shared subtrees, repeated links, depth 1-3; go-merkledag ProtoNode DAGs with repeated roots for WriteCar) x selectors {explore-all recursive, depth-limited, field path} x {AllowDuplicatePuts (link-visit-once off), data/index padding, index codec or none, link budget}; the REAL load sequence is recorded through an instrumented LinkSystem / NodeGetter and handed to the model, which must predict the bytes, the announced and returned sizes, the header fields and the callback offsets of NewSelectiveWriter.WriteTo, TraverseV1, TraverseToFile, SelectiveCar.Write/Prepare/Dump and WriteCar; distinct = distinct script text',
        'trusted': ['go-ipld-prime selectors / traversal and go-merkledag Walk (the engine is a parameter: its load sequence is an input of the model)'],
        'assumptions': ['block codecs consume their whole input (the counting pass counts bytes the decoder actually reads)'],
    },
    'C08': {
        'families': [('c08', 80, 300, {'race': True})],
        'rule': 'per scenario one shared instance {blockstore.ReadWrite on a real file, storage.StorageCar on a concurrency-safe in-memory file, DeferredCarWriter for a path} x options; 2-8 goroutines (2-16 thorough) each issuing 10-40 random calls {Put, Has, Get, AllKeysChan drained, GetSize} over a shared block alphabet, built and run under the Go race detector (GORACE log inspected per scenario), with panic recovery and a deadlock timeout; the timestamped invocation/response history is checked for real-time consistency (a block whose Put returned is found by every later Has/Get with exact bytes; nothing is reported that was never put) and the finalized file is decoded (each distinct key once under de-duplication, all successful puts present); distinct = distinct script text (scenario parameters)',
        'trusted': ['Go race detector, runtime scheduler and memory model (the schedules explored are whatever the runtime produces; this run is validation and failing-schedule search, the deciding artefact is the theorem over the extracted lock table)', 'the syntactic lock/field analysis in extract/locks.go'],
        'assumptions': ['OnPut registration is not in the property\'s operation list (it is unsynchronised by design)'],
    },
    'C09': {
        'families': [('c09', 10, 120)],
        'rule': 'per generated archive: the archive and 8 structure-aware mutations of it (huge / non-minimal varints spliced over length prefixes, 8-byte header and index length fields overwritten with 0, 1, 2^40, 2^63-1, 2^63, 2^64-1, file length +/- 1, truncation, byte noise, appended bytes, raw random, cut-and-splice) x {default limits, small random MaxAllowedHeaderSize/SectionSize} x ZeroLengthSectionAsEOF x 15 parsing entry points (BlockReader Next and SkipNext over seekable and plain sources, Inspect full/quick, GenerateIndex seekable/plain, ReadOrGenerateIndex, index.ReadFrom on mutated index bytes + ForEach, blockstore.NewReadOnly + all queries, storage.OpenReadable + queries, ReplaceRootsInFile, ExtractV1File, root CarReader, ReadVersion, Reader.IndexReader + index.ReadFrom, GenerateIndexFromFile, OpenReader + Roots + Inspect, the DataReader-derived block reader), each under recover() with the bytes allocated (runtime.MemStats.TotalAlloc) and the wall time measured; plus header/section limits probed at max-1, max, max+1 and at a configured limit of 0 or 1; result classes compared with the model where one exists; distinct = distinct script text',
        'trusted': ['runtime.MemStats.TotalAlloc as the allocation measure; a fatal out-of-memory or a hang of the harness process is reported by the orchestrator as a crash of the family (replay = the case file written before each call)'],
        'assumptions': ['allocation bound checked: MaxAllowedHeaderSize + MaxAllowedSectionSize + 4096 * len(input) + 4 MiB per call'],
    },
    'C07': {
        'families': [('c07', 60, 600)],
        'rule': 'generated archives in four shapes (CARv1 with optional null padding, CARv2 with embedded index written with/without identity CIDs and with data padding, hand-laid index-less CARv2) x {blockstore.NewReadOnly with embedded/generated index, with a supplied car-index-sorted or car-multihash-index-sorted index; storage.OpenReadable} x {UseWholeCIDs, StoreIdentityCIDs, ZeroLengthSectionAsEOF}; Roots, AllKeysChan and, for every present CID, codec/hash-code variants and absent CIDs: Has, Get (+GetStream), GetSize — compared with the model and with a reference scan of the block list; distinct = distinct script text',
        'trusted': [],
        'assumptions': ['a caller-supplied index follows the same StoreIdentityCIDs policy as the store it is given to (documented caveat of ReadOnly.Has/Get)'],
    },
    'C13': {
        'families': [('c13', 6, 60)],
        'rule': 'generated valid archives (CARv1, CARv2 with padding and index) and structure-aware corruptions of them: a bit flip / increment / decrement / random byte at (a stride over) every offset, truncations, trailing null padding, CARv2 cut at the payload end, inner-header version changed, last section length enlarged; each input through Reader.Inspect(true) and Inspect(false) x ZeroLengthSectionAsEOF; the verdict and every Stats field compared with the model and (full validation) with the statistics of the verifying block-reader scan; distinct = distinct script text',
        'trusted': ['multihash.SumStream = hash of the bytes it is given (hash parameter H)'],
        'assumptions': ['MaxAllowedSectionSize <= 32 MiB so that CidFromReader\'s digest cap never bites (explicit hypothesis of the theorems)'],
    },
    'C11': {
        'families': [('c11', 150, 2000), ('c12', 40, 200), ('c03', 20, 100)],
        'rule': 'generated record multisets (hash codes incl. identity and a 4-byte code, digest widths 0..70, duplicate digests with other offsets / other hash codes, offsets up to 2^63-1) loaded in a random permutation into both on-disk codecs; WriteTo byte count vs bytes written, bytes compared with the identity-order load when no digest is shared, ReadFrom of the bytes, then GetAll/GetFirst for every record CID and absent CIDs and ForEach on the re-read index, all compared with model and with the record multiset; distinct = distinct script text; plus the resumption family of C12 at a small count (the flattened index of a session that was interrupted and resumed is part of the final file compared byte for byte) and the index-generation family of C03 at a small count (regenerating from the finished payload, through seekable, plain and byte-at-a-time stream readers, answers every lookup as the records of the sections do)',
        'trusted': ['Go sort.Sort instability for equal digests is canonicalised away (offset lists compared sorted)'],
        'assumptions': [],
    },
    'C10': {
        'families': [('c10', 40, 400), ('c19', 8, 40)],
        'rule': 'generated valid CARv1 x: WrapV1 (both codecs, StoreIdentityCIDs on/off) output compared byte-for-byte; ExtractV1File over {the wrapped file, a hand-laid index-less CARv2 with data padding, a writer-produced CARv2 with data and index padding} x destination {absent, larger pre-existing file, the same path (in place)} on real files; ReplaceRootsInFile with replacement root lists of equal and different encoded size on CARv1 and CARv2 files, file bytes before/after; distinct = distinct script text; plus the CLI family of C19 at a small count (car index / car index --version 1 are the command-line forms of wrap and extract, to a file and to standard output)',
        'trusted': ['io.CopyN / copy_file_range as a chunked read-then-write loop (any chunking is covered by the theorem)'],
        'assumptions': [],
    },
    'C16': {
        'families': [('c16', 100, 1000)],
        'rule': 'sessions of Put/Has/Get/Finalize on blockstore.ReadWrite (real file, faults injected through the verif write hook) and storage.StorageCar (in-memory file whose WriteAt fails on demand), where one write call of a Put (length prefix, CID or data) or of Finalize (any of its index/header writes) returns an error after 0, a quarter, half, three quarters or all of its bytes; followed by a random continuation, a clean Finalize, the file bytes and the real Inspect(true)/VerifyCar verdicts; distinct = distinct script text',
        'trusted': ['the output can be truncated (os.File, or a WriterAt with Truncate); a plain stream cannot be repaired and is closed on failure'],
        'assumptions': ['faults are transient write errors / short writes reported by the writer (not silent corruption)'],
    },
    'C20': {
        'families': [('c20', 80, 800)],
        'rule': 'random sequences of OnPut registrations (plain / once-only), Has, Put, Close (incl. repeated Close and calls after Close) over path and stream targets x CARv1/CARv2 options; after EVERY step: the bytes on the stream or the existence and bytes of the file, the call result and the list of callbacks fired; distinct = distinct script text',
        'trusted': ['os.OpenFile(O_CREATE|O_TRUNC) semantics (file appears at first Put)'],
        'assumptions': [],
    },
    'C06': {
        'families': [('c06', 12, 120)],
        'rule': 'writing sessions (open or resume-from-an-earlier-session, 1-3 puts, optional Finalize) over the option grid x {blockstore.OpenReadWrite on a real file with the verif write hook, storage.OpenReadableWritable on a recording in-memory file}; the REAL write trace is recorded and compared with the model\'s write list; for EVERY write boundary and every byte offset inside every write (sampled for writes longer than 24 bytes at quick tier) the crash image is built, reopened with the real library, queried (Has/Get of every acknowledged block, index contents), continued (one more put + Finalize) and the result decoded by the verifying block reader; plus the corpus construction of known finding D5; distinct = distinct script text',
        'trusted': ['pwrite/ftruncate semantics as modelled by writeAt/truncate (zero-filled holes, zero-length write is a no-op); a torn write leaves a byte prefix'],
        'assumptions': ['crash = any prefix of the issued writes with the last one cut at a byte boundary (no reordering, no sector-level tearing)'],
    },
    'C12': {
        'families': [('c12', 80, 800)],
        'rule': 'random interleavings of {Put, Discard+reopen, Finalize+reopen, file snapshot} on one file ending in Finalize, with the final bytes compared with the uninterrupted session (specification layout of the log) x option configurations x {blockstore.OpenReadWrite on a real file, storage.OpenReadableWritable on an in-memory file}; reopen attempts with single-field mismatches (version, data padding, roots, root permutation, same set/different multiset) followed by a file snapshot that must equal the bytes before; distinct = distinct script text',
        'trusted': [],
        'assumptions': ['root lists that are permutations of each other are not "different roots" (CarHeader.Matches documents order-insensitivity)'],
    },
    'C14': {
        'families': [('c14', 40, 400)],
        'rule': 'generated valid archives (CARv1, CARv2 with data padding, index after the payload) x Next/SkipNext choice strings (all-skip plus random strings, two calls past the end) x {bytes.Reader-like source with ReadByte, file-like source with Read+Seek only, plain io.Reader, a real *os.File}; every BlockMetadata field, every block, the EOF position and the exact number of bytes read from the wrapped source are compared; distinct = distinct script text',
        'trusted': [],
        'assumptions': ['digests within go-cid\'s 32 MiB stream cap (SkipNext parses the CID with CidFromReader)'],
    },
    'C01': {
        'families': [('c01', 25, 250), ('c15', 12, 60), ('c12', 25, 100)],
        'rule': 'generated (roots, block list, write options) written by every writer kind {blockstore.ReadWrite, storage.NewReadableWritable, storage.NewWritable on a WriterAt, storage stream CARv1, deferred writer for path and for stream, root-module WriteHeader+LdWrite}, each finished file then read by {BlockReader seekable/plain, v2 Reader DataReader payload, internal CARv1 reader, root CarReader with/without empty-roots error, root LoadCar, blockstore.OpenReadOnly keys+Get, storage.OpenReadable Get}; file bytes predicted byte-for-byte by the model and by the layout spec; plus the traversal family of C15 at a small count for the DAG writer of the root module (WriteCar with repeated / overlapping roots: each block once) and the resumption family of C12 (a writer re-opened on its own file, with or without blocks in it, is a writer too); distinct = distinct script text',
        'trusted': ['go-ipld-cbor/refmt header encoding as transcribed (validated byte-for-byte on every generated header)'],
        'assumptions': ['legacy reader preconditions as documented: carv1.NewCarReader and car.NewCarReader reject empty root lists (NewCarReaderWithOptions(WithErrorOnEmptyRoots(false)) is used for those)'],
    },
    'C04': {
        'families': [('c04', 120, 1500)],
        'rule': 'random operation sequences (Put, PutMany, Has, Get, GetSize, AllKeysChan, Roots, Finalize, FinalizeReadOnly, Close, Discard, file snapshot) over a 10-block alphabet (equal multihash/other codec, identity, equal digest under another hash code, over-long CID, CIDv0, forged same-CID block, sha2-512) x option grid {UseWholeCIDs, AllowDuplicatePuts, StoreIdentityCIDs, WriteAsCarV1, MaxIndexCidSize, paddings, codec} x {blockstore.ReadWrite on a real file, storage.StorageCar on an in-memory ReaderAt/WriterAt}; every result compared with the model of the code and with the reference log',
        'trusted': ['GoLLRB as an insertion-stable ordered multiset'],
        'assumptions': ['Get theorems assume stored sections fit MaxAllowedSectionSize (the reader-side limit) and digests fit go-cid\'s 32 MiB stream cap'],
    },
    'C05': {
        'families': [('c05', 60, 600), ('c12', 20, 100)],
        'rule': 'put histories (incl. none) x data/index padding x codec x StoreIdentityCIDs x WriteAsCarV1 x {blockstore, storage}: finalized file compared byte-for-byte with the model and with the layout specification (pragma, header fields, padding, payload, index padding, index); the real Reader.Inspect(true) and lib.VerifyCar verdicts on it; compositions (finalize, reopen, put more or not, finalize again; discard, reopen, finalize: the C12 sessions) end in the same byte-for-byte comparison',
        'trusted': [],
        'assumptions': ['WithoutIndex() on a writable store is outside the grid (Finalize reports unknown index codec: documented TODO)'],
    },
    'C03': {
        'families': [('c03', 60, 600)],
        'rule': 'generated archives (real writers; duplicates, equal digest under different hash codes, identity CIDs, CIDv0, CARv1 with optional null padding / CARv2 with data padding) x {bytes.Reader, plain reader} x {car-index-sorted, car-multihash-index-sorted, insertion index} x {StoreIdentityCIDs, ZeroLengthSectionAsEOF, MaxIndexCidSize}; GetAll/GetFirst for every present CID, codec/hash-code variants and absent CIDs, ForEach where offered; distinct = distinct script text',
        'trusted': ['GoLLRB as an insertion-stable ordered multiset', 'Go sort.Sort instability is canonicalised away (entries with equal digest compared as sorted offset lists)'],
        'assumptions': ['the in-memory insertion index (GoLLRB) is tied differentially; lookups in the two on-disk codecs are proved exact (generated_index_lookup_exact)'],
    },
    'C02': {
        'families': [('c02', 6, 40)],
        'rule': 'per generated archive (real writers, block alphabet of the property): EVERY truncation offset up to the end of the payload and a byte flip at EVERY offset, plus raw/spliced/mutated byte strings, through the v2 BlockReader (seekable and plain source) and the internal CARv1 reader; distinct = distinct script text; non-trivial = executed against implementation and model',
        'trusted': ['hash functions as parameter H; driver SHA-256 validated against go-multihash on every generated block',
                    'refmt cbor decoding outside the canonical header subset (model declines, counted in model_declined)'],
        'assumptions': ['corruption detection (scan_corrupt) assumes the changed block no longer verifies: H c d\' != digest (no hash collision), stated as an explicit hypothesis'],
    },
}


def _uvarint(b, i):
    x = s = 0
    while i < len(b):
        c = b[i]; i += 1
        x |= (c & 0x7f) << s
        if c < 0x80:
            return x, i
        s += 7
    return None, i


def _cid_is_identity(hexs):
    try:
        b = bytes.fromhex(hexs)
    except ValueError:
        return False
    if len(b) == 34 and b[0] == 0x12 and b[1] == 0x20:
        return False
    v, i = _uvarint(b, 0)
    _, i = _uvarint(b, i)
    code, i = _uvarint(b, i)
    return v == 1 and code == 0


def _identity_digest_len(hexs):
    """digest length of an identity CIDv1, or None"""
    try:
        b = bytes.fromhex(hexs)
        v, i = _uvarint(b, 0)
        _, i = _uvarint(b, i)
        code, i = _uvarint(b, i)
        n, i = _uvarint(b, i)
        return n if (v == 1 and code == 0) else None
    except Exception:
        return None


def _getsize_known(script_toks, I, S):
    """the recorded GetSize finding, exactly: the answer is the identity digest's own length where
    the reference says not-found / closed. Any other wrong answer is a different violation."""
    n = _identity_digest_len(script_toks.get('c', ''))
    return n is not None and I.split()[1:2] == ['r=n:%d' % n] and S.split()[1:2] in (['r=notfound'], ['r=closed'])


def _get_over_limit_known(toks, I, S):
    """the recorded finding, exactly: Get answers too-large for a block the store holds whose section
    (CID + data) is longer than the session's MaxAllowedSectionSize; the reference returns its bytes."""
    try:
        ms = int(toks.get('ms', ''))
        cidlen = len(bytes.fromhex(toks.get('c', '')))
    except ValueError:
        return False
    s = S.split()[1:2]
    if I.split()[1:2] != ['r=toolarge'] or not s:
        return False
    if s[0] == 'r=notfound':
        # the lookup of an absent key walked through an over-limit section carrying the same digest
        # (same root cause: the read-side limit applied to the store's own sections)
        return True
    if not s[0].startswith('r=d:'):
        return False
    data = s[0][4:]
    dlen = 0 if data == '-' else len(data) // 2
    return cidlen + dlen > ms


def signature(pid, script, I, S):
    """Deterministic label of WHAT fails, from structural features of the failing case."""
    fam = script.split(' ', 1)[0]
    toks = dict(t.split('=', 1) for t in script.split()[1:] if '=' in t)
    if pid == 'C02':
        if 'trunc' in toks:
            return 'C02/truncation-not-reported'
        if 'flip' in toks:
            return 'C02/corruption-not-reported'
        return 'C02/unsound-block-returned'
    if pid == 'C16':
        if 'fail' in toks:
            return 'C16/' + fam + '-with-failed-write-misreported'
        return 'C16/' + fam + '-after-failed-write-differs'
    if pid == 'C10':
        return 'C10/' + toks.get('op', '?') + '-' + toks.get('dst', '') + '-output-differs'
    if pid == 'C11':
        return 'C11/' + toks.get('codec', '?') + '-serialisation-differs'
    if pid == 'C13':
        return 'C13/inspect-full' + toks.get('full', '?') + '-differs-from-verifying-scan'
    if pid == 'C07':
        if toks.get('kind') == 'size' and _getsize_known(toks, I, S):
            return 'C07/getsize-identity-ignores-store-identity-option'
        return 'C07/' + fam + '-' + toks.get('kind', 'open') + '-differs-from-scan'
    if pid == 'C09':
        return 'C09/' + toks.get('ep', '?') + '-panic-alloc-or-class'
    if pid == 'C08':
        return 'C08/' + toks.get('api', '?') + '-concurrent-run-' + ('race' if 'race=1' in I else 'inconsistent')
    if pid == 'C19':
        return 'C19/' + toks.get('op', '?') + '-output-rejected-or-differs'
    if pid == 'C18':
        if fam == 'extract':
            return 'C18/extract-does-not-reproduce-the-tree'
        if fam == 'root':
            return 'C18/printed-root-differs'
        return 'C18/archive-' + fam + '-differs'
    if pid == 'C17':
        return 'C17/extract-writes-outside-output-dir'
    if pid == 'C15':
        return 'C15/' + toks.get('kind', '?') + '-output-or-size-differs'
    if pid == 'C20':
        return 'C20/' + fam + '-differs-from-lazy-direct-writer'
    if pid == 'C06':
        tr = toks.get('trace', '-').split(',')
        n, k = len(tr), int(toks.get('k', '0'))
        if toks.get('fin') == '1' and k in (n - 2, n - 1):
            it = dict(t.split('=', 1) for t in I.split()[1:] if '=' in t)
            if it.get('open') == 'ok' and it.get('has') == '1' and it.get('only') == '0':
                # the recorded finding: every acknowledged block is still there, but the scan ran on
                # into the index bytes and the resumed store holds something that was never put
                return 'C06/crash-after-index-written-before-header-valid'
            return 'C06/crash-after-index-written-before-header-valid/open=%s,has=%s,only=%s' % (it.get('open'), it.get('has'), it.get('only'))
        idx = [i for i, x in enumerate(tr) if x.split(':')[-1] in ('8108', '8008')]
        if toks.get('fin') == '1' and idx and k > idx[-1]:
            return 'C06/crash-inside-index-write'
        return 'C06/crash-in-open-or-put-phase'
    if pid == 'C12':
        if fam == 'reopen':
            return 'C12/reopen-verdict-differs'
        if fam == 'file':
            return 'C12/file-bytes-differ-after-resumption'
        return 'C12/' + fam + '-result-differs-after-resumption'
    if pid in ('C04', 'C05', 'C01'):
        if fam == 'get' and _get_over_limit_known(toks, I, S):
            return pid + '/get-refuses-stored-section-over-read-limit'
        if fam == 'size' and _getsize_known(toks, I, S):
            return pid + '/getsize-identity-ignores-store-identity-option'
        if fam == 'file':
            return pid + '/file-bytes-differ-from-layout'
        if fam == 'read':
            return pid + '/reader-' + toks.get('rd', '?') + '-does-not-return-what-was-written'
        return pid + '/' + fam + '-result-differs-from-reference-map'
    if pid == 'C14':
        return 'C14/' + toks.get('kind', '?') + '-v' + toks.get('ver', '?') + '-walk-differs'
    if pid == 'C03':
        return 'C03/' + toks.get('kind', '?') + '-' + ('v' + toks.get('ver', '?')) + '-index-differs-from-reference-scan'
    return f'{pid}/{fam}'
