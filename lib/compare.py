#!/usr/bin/env python3
"""Three-way comparison of implementation (I), model (M) and specification (S) lines.

impl.txt  : one 'I <tokens>' line per script line
model.txt : two lines per script line, 'M <tokens>' then 'S <pattern tokens>'
Tokens are key=value. I must equal M on every key; I must match S on the keys S mentions
('*' matches anything, '!x' matches anything but x).  Model answers containing 'noncanon'
mean the model declined (input outside the modelled subset): only S is checked there.
"""
import sys

def toks(line):
    d = {}
    for t in line.split()[1:]:
        if '=' in t:
            k, v = t.split('=', 1)
            d[k] = v
        else:
            d[t] = ''
    return d

def match(pat, val):
    if pat == '*':
        return True
    if pat.startswith('!'):
        return val != pat[1:]
    if '|' in pat:
        return val in pat.split('|')
    return pat == val

import re as _re

def _shape(line):
    """a line with long hex runs and numbers abstracted: what kind of answer it is"""
    return _re.sub(r'[0-9a-f]{16,}', 'H', line)[:400]


def compare(script_path, impl_path, model_path, max_report=50):
    res = {'lines': 0, 'compared': 0, 'declined': 0, 'i_ne_m': [], 's_bad': [], 'skipped': 0}
    # details are kept for the first few cases of every distinct (answer, expectation) shape, so that
    # many instances of one failure (e.g. a recorded finding) cannot crowd out a different one
    shapes = {}

    def keep(kind, iline, other):
        k = (kind, _shape(iline), _shape(other))
        shapes[k] = shapes.get(k, 0) + 1
        return shapes[k] <= 3 and len(shapes) <= max_report * 4
    with open(script_path) as fs, open(impl_path) as fi, open(model_path) as fm:
        ln = 0
        for sline in fs:
            ln += 1
            iline = fi.readline().rstrip('\n')
            mline = fm.readline().rstrip('\n')
            spec = fm.readline().rstrip('\n')
            res['lines'] += 1
            if not mline.startswith('M') or not spec.startswith('S') or not iline.startswith('I'):
                res['i_ne_m'].append((ln, sline.strip(), iline, mline + ' | ' + spec, 'protocol'))
                continue
            if mline.strip() == 'M skip':
                res['skipped'] += 1
                continue
            I, M, S = toks(iline), toks(mline), toks(spec)
            declined = 'noncanon' in mline
            if declined:
                res['declined'] += 1
            else:
                res['compared'] += 1
                bad = [k for k in set(I) | set(M) if not k.startswith('_') and I.get(k) != M.get(k)]
                if bad:
                    if keep('m', iline, mline):
                        res['i_ne_m'].append((ln, sline.strip(), iline, mline, ','.join(sorted(bad))))
                    else:
                        res['i_ne_m'].append((ln, '', '', '', ''))
            sbad = [k for k, p in S.items() if not match(p, I.get(k, '<absent>'))]
            if sbad:
                if keep('s', iline, spec):
                    res['s_bad'].append((ln, sline.strip(), iline, spec, ','.join(sorted(sbad))))
                else:
                    res['s_bad'].append((ln, '', '', '', ''))
    return res

if __name__ == '__main__':
    r = compare(*sys.argv[1:4])
    print({k: (v if not isinstance(v, list) else len(v)) for k, v in r.items()})
    for kind in ('i_ne_m', 's_bad'):
        for e in r[kind][:5]:
            print(kind, e[0], e[4])
            print('  script:', e[1][:300])
            print('  I:', e[2][:300])
            print('  M/S:', e[3][:300])
