HOOK_COMMITS = ['5982f98']

NOT_APPLICABLE = {}

_NOTE = ('Trusted: Lean 4.33.0 kernel; axioms propext/Classical.choice/Quot.sound only (audited by #print axioms each run; no native_decide, bv_decide, sorry); '
         'the hand-written model (lean/CarModel) is tied to /repo by regenerated Gen/Facts.lean + differential execution of real code vs model on this run\'s scripts; '
         'hash functions, refmt cbor decoding outside the canonical header subset, go-cid/go-multihash parsing as transcribed are parameters of the model. ')

TEXT = {
    'C03': {
        'text': 'Kernel-checked, for every block list and every option setting: loadIndex_records_v1/_v2 (LoadIndex over a CARv1, or a CARv2 with any paddings and with or without a trailing index, returns exactly every section\'s CID with the payload-relative offset of its length prefix, identity CIDs iff StoreIdentityCIDs), loadIndex_kind_independent (seekable = plain stream, CARv1 = wrapping CARv2), offset_decodes (the section at each recorded offset decodes to that block), loadLoop_cid_too_large. '
                'The tie runs LoadIndex on real archives for both reader kinds and the three index types and compares GetAll/GetFirst/ForEach with the model (I = M) and with a reference scan of the block list (I ~ S).',
        'note': _NOTE + 'Partial: the lookup half (GetAll = binary search + forward scan over the compact buckets, model CarModel/Index.lean goSearch/scanEqual) is modelled exactly and compared differentially on every query, but its correctness theorem (getAll_load) is not proved yet; GoLLRB is trusted as an ordered multiset.',
    },
    'C02': {
        'text': 'Kernel-checked theorems for ALL byte strings / ALL truncation offsets: scan_sound, blockReader_sound, carV1Reader_sound (every returned block verifies, for every input and every hash parameter H); '
                'scan_truncated, carV1_truncated, carV1_header_truncated, carV2_truncated (cut at offset k: exactly the complete sections, clean EOF iff k is a section boundary, else unexpectedEOF; header cut => open fails); '
                'scan_corrupt (a section that no longer verifies => blocks before it, then hashMismatch). The tie runs every truncation offset and a flip at every byte of generated archives plus arbitrary byte strings through the real BlockReader (seekable/plain) and internal CARv1 reader and demands I = M and I ~ S.',
        'note': _NOTE + 'Not yet covered by a theorem (differential only): truncation inside the CARv2 pragma/header/padding region; root-module CarReader and Inspect(true) are tied under C01/C13.',
    },
}
