HOOK_COMMITS = ['5982f98']

NOT_APPLICABLE = {}

_NOTE = ('Trusted: Lean 4.33.0 kernel; axioms propext/Classical.choice/Quot.sound only (audited by #print axioms each run; no native_decide, bv_decide, sorry); '
         'the hand-written model (lean/CarModel) is tied to /repo by regenerated Gen/Facts.lean + differential execution of real code vs model on this run\'s scripts; '
         'hash functions, refmt cbor decoding outside the canonical header subset, go-cid/go-multihash parsing as transcribed are parameters of the model. ')

TEXT = {
    'C20': {
        'text': 'Kernel-checked for all sequences and options: deferred_lazy (any sequence of OnPut registrations and Has calls leaves the writer uncreated: no byte written, no file, Has = false — by induction over the sequence), first_put_is_direct / later_put_is_direct / close_is_finalize (from the first Put on every call is forwarded to a store created exactly as a direct writer creates it, so outputs are identical by construction and covered by C04/C05), fireLoop_spec + callbacks_fire_in_order (the index-based in-place removal loop fires every registered callback once per Put in registration order and removes exactly the once-only ones — induction over the callback list), closed_after_close. '
                'The tie runs random sequences on real path and stream targets and compares, after every step, stream bytes / file existence and bytes / results / callbacks fired with the model and with a direct-writer specification.',
        'note': _NOTE + 'File creation (os.OpenFile) and the BlockWriteOpener adapter are outside the model.',
    },
    'C06': {
        'text': 'Kernel-checked for every option setting, root list, history and byte offset of the OPEN and PUT phases: crash_on_boundary (image cut after any number of complete sections: reopening succeeds with exactly those blocks — all acknowledged ones, only put ones — writer at the end, invariant re-established so continuing and finalizing is covered by C04/C05), crash_inside_section (image cut at ANY byte strictly inside the next section — length prefix, CID or data: reopening fails and the payload window is byte-for-byte untouched), acked_intact_after_refusal, crash_during_open (no write at all), write_order_facts (regenerated guard facts: index before header, section before index insertion, validations before mutation). With C12.finalize_reopen this also covers a crash after a completed Finalize. '
                'PARTIAL: crash points inside Finalize between the index write and a valid header are not safe in general and are a listed known finding (D5); the header-torn-inside-DataSize case (D6) and the torn-data case (D4) were genuine defects, repaired. The tie records the REAL write trace (hook / recording file), requires it to equal the model\'s write list, and reopens every crash image (every write boundary, every byte of short writes) with the real library.',
        'note': _NOTE + 'Crash model: a byte prefix of the issued write sequence (no reordering). Finalize-phase crash points (index bytes present, header not yet valid) are explored and compared exhaustively by the tie but have no safety theorem — the property is false there (known finding).',
    },
    'C12': {
        'text': 'Kernel-checked: discard_reopen and finalize_reopen (for every state reachable through the invariant — any put history, any options — reopening the file after Discard, or after Finalize, with the same roots and options yields a store with the same file bytes (index cut off, header un-finalised), the same log, the writer at the same position and the same index records, so by the C04 refinement and C05 layout theorems every later result and the final bytes are those of the uninterrupted session); create_shape/put_shape (what an un-finalised session leaves on disk); refused_without_writes + reject_wrong_version / reject_wrong_padding / reject_wrong_roots (each mismatch is detected before the first mutation: no write event, file unchanged); rootsMatch_of_perm / rootsMatch_multiset (order ignored, multiplicity not). '
                'The tie runs random interleavings and all single-field mismatches against real files and in-memory storage.',
        'note': _NOTE + 'The byte-identity of the final file additionally uses that the flattened index does not depend on insertion order beyond equal digests (C11; tied differentially here: the final file is compared byte-for-byte on every case).',
    },
    'C14': {
        'text': 'Kernel-checked by induction over the block list for an arbitrary infinite choice string: v1_any_choices and v2_any_choices (for every valid CARv1 / CARv2 with any padding and any trailing index, seekable or plain source, every interleaving of Next and SkipNext yields for block i either the block or metadata with Offset = payload offset of its length prefix, SourceOffset = 51 + padding + Offset, Size = data length, and a clean EOF exactly at the end of the payload window), visits_cids (same CID sequence for every choice string), skip_offset_is_index_offset (Offset is what an index records). Invariant: br.offset = true source offset (BRInv). '
                'The tie drives the real BlockReader with choice strings over four source kinds and compares visits, EOF position and the byte count read from the wrapped source (never past DataOffset+DataSize).',
        'note': _NOTE + 'The "never consumed past the payload" clause is structural in the model (the v2 reader only sees the take(DataSize) window) and measured on the real code by a counting source on every case.',
    },
    'C01': {
        'text': 'Kernel-checked for every root list, block list and option setting: uvarint_roundtrip, cid_roundtrip (both go-cid decoders), header_roundtrip (dag-cbor header, nil vs empty roots), section_framing; writers_same_payload (the payload window depends only on roots and stored blocks, not on API/version/padding/codec); roundtrip_v1 and roundtrip_v2 (the file left by any put history, in CARv1 mode or after Finalize in CARv2 mode with any paddings and either codec, is read back by the block reader / CARv1 reader as exactly the roots and the stored blocks in order, clean EOF); roundtrip_index. '
                'The tie writes generated content with seven writer front ends and reads each file with ten reader paths; file bytes must equal the model\'s and the layout spec\'s prediction byte for byte.',
        'note': _NOTE + 'The stream/deferred/WriterAt front ends of StorageCar and the root-module writer are modelled as the same Store machine (they share the code path); root CarReader/LoadCar and the random-access readers are modelled (RootReader.lean) and compared differentially but have no separate round-trip theorem yet.',
    },
    'C04': {
        'text': 'Refinement to a reference log (Spec.lean, ~100 lines), kernel-checked for all states reachable through the invariant and all options: create_rel, put_refines, putMany_refines (a block is skipped only when its key — multihash or whole CID — is stored or the IdStore rule applies; over-long CID rejected: oversize_rejected_unchanged; otherwise appended), has_refines, allKeys_refines (permutation), findCid_log / blockstore_get / storage_get (Get returns exactly the bytes of a stored block carrying the key, or not-found when none does: never an error, never foreign bytes), identity_get, closed_rejects (after Discard/Close/Finalize every write and non-identity lookup errors and the file never changes), finalized_rejects_put. '
                'The tie runs random op sequences on real blockstore files and storage CARs and compares every result with model and reference.',
        'note': _NOTE + 'Known finding printed on the unchanged tree: GetSize ignores StoreIdentityCIDs (pinned by go-car\'s own TestReadOnly, so recorded not repaired). A whole-run theorem over arbitrary op lists is given per operation (step lemmas), the induction over lists is proved for PutMany.',
    },
    'C05': {
        'text': 'Kernel-checked: header_arith (data offset = 51 + data padding, data size = payload length, index offset = end of payload + index padding, fully-indexed bit iff StoreIdentityCIDs; uint64 wrap-around excluded by an explicit bound), pragma_and_flag_position, finalize_layout / blockstore_finalize / storage_finalize (for every state reachable through the invariant, Finalize leaves exactly pragma ++ header ++ padding ++ CARv1 header(roots) ++ sections in put order ++ index padding ++ flattened index, and returns ok/closed), v1_file_is_payload, finalized_reads_back (the block reader accepts the file and returns roots + blocks). '
                'The tie compares finalized files byte-for-byte with the layout spec and runs the real Inspect(true) and VerifyCar on them.',
        'note': _NOTE + '"The index resolves exactly those sections" rests on the differential run (index lookups, C03) — the lookup theorem is still open; Inspect/VerifyCar acceptance is checked on the real code for every generated file, their models come with C13/C19.',
    },
    'C03': {
        'text': 'Kernel-checked, for every block list and every option setting: loadIndex_records_v1/_v2 (LoadIndex over a CARv1, or a CARv2 with any paddings and with or without a trailing index, returns exactly every section\'s CID with the payload-relative offset of its length prefix, identity CIDs iff StoreIdentityCIDs), loadIndex_kind_independent (seekable = plain stream, CARv1 = wrapping CARv2), offset_decodes (the section at each recorded offset decodes to that block), loadLoop_cid_too_large. '
                'The tie runs LoadIndex on real archives for both reader kinds and the three index types and compares GetAll/GetFirst/ForEach with the model (I = M) and with a reference scan of the block list (I ~ S).',
        'note': _NOTE + 'Partial: the lookup half (GetAll = binary search + forward scan over the compact buckets, model CarModel/Index.lean goSearch/scanEqual) is modelled exactly and compared differentially on every query, but its correctness theorem (getAll_load) is not proved yet; GoLLRB is trusted as an ordered multiset.',
    },
    'C02': {
        'text': 'Kernel-checked theorems for ALL byte strings / ALL truncation offsets: scan_sound, blockReader_sound, carV1Reader_sound (every returned block verifies, for every input and every hash parameter H); '
                'scan_truncated, carV1_truncated, carV1_header_truncated, carV2_truncated (cut at offset k: exactly the complete sections, clean EOF iff k is a section boundary, else unexpectedEOF; header cut => open fails); '
                'scan_corrupt (a section that no longer verifies => blocks before it, then hashMismatch). The tie runs every truncation offset and a flip at every byte of generated archives plus arbitrary byte strings through the real BlockReader (seekable/plain) and internal CARv1 reader and demands I = M and I ~ S.',
        'note': _NOTE + 'Not yet covered by a theorem (differential only): truncation inside the CARv2 pragma/header/padding region; root-module CarReader and Inspect(true) are tied under C01/C13.',
    },
}
