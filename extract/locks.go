package main

// Lock-table extraction (C08): for each public method of the concurrent types, the sequence of lock
// operations and guarded-state accesses in source order, with deferred unlocks placed at the end of
// the function, same-type helper calls inlined, and goroutine bodies placed where they run (after
// the spawning function returned, unless the goroutine itself releases the lock it was handed).
// Purely syntactic; the result is judged by `wellLocked` in Lean.

import (
	"fmt"
	"go/ast"
	"go/token"
	"strings"
)

type lockSpec struct {
	rel, typ string
	mutex    []string          // selector paths naming the mutex, e.g. "mu", "ronly.mu", "lk"
	fields   map[string]int    // guarded field path -> field id
	aliases  map[string]string // local variable -> guarded field path
	methods  []string
}

var lockSpecs = []lockSpec{
	{"v2/blockstore/readonly.go", "ReadOnly", []string{"mu"},
		map[string]int{"closed": 0, "idx": 1}, nil,
		[]string{"Has", "Get", "GetSize", "AllKeysChan", "Close"}},
	{"v2/blockstore/readwrite.go", "ReadWrite", []string{"ronly.mu"},
		map[string]int{"ronly.closed": 0, "idx": 1, "ronly.idx": 1, "dataWriter": 3, "finalized": 4},
		nil, []string{"Put", "PutMany", "Has", "Get", "GetSize", "AllKeysChan", "Finalize", "FinalizeReadOnly", "Close", "Discard"}},
	{"v2/storage/storage.go", "StorageCar", []string{"mu"},
		map[string]int{"closed": 0, "dataWriter": 3}, map[string]string{"idx": "idx"},
		[]string{"Put", "Has", "Get", "GetStream", "Finalize"}},
	{"v2/storage/deferred/deferredcarwriter.go", "DeferredCarWriter", []string{"lk"},
		map[string]int{"closed": 0, "w": 1, "f": 5, "putCb": 6}, nil,
		// OnPut (listener registration) is set-up, not one of the concurrent operations C08 names, and is
		// unlocked in go-car; the listener list it fills IS guarded state of Put.
		[]string{"Has", "Put", "Close"}},
}

// field ids: 0 closed, 1 index contents / lazily created writer, 3 writer position, 4 finalized, 5 file handle, 6 OnPut listener list
var writeMethods = map[string]bool{"InsertNoReplace": true, "Load": true, "Seek": true, "Write": true}

type lockWalker struct {
	spec     lockSpec
	recv     string
	funcs    map[string]*ast.FuncDecl // methods of this type and of embedded helper types in the same package
	roFuncs  map[string]*ast.FuncDecl // ReadOnly methods (for b.ronly.X inlining)
	out      []string
	deferred []string
	spawned  [][]string
	exits    [][]string // complete event paths of early-return branches
	depth    int
}

func selPath(e ast.Expr) (string, bool) {
	switch x := e.(type) {
	case *ast.Ident:
		return x.Name, true
	case *ast.SelectorExpr:
		p, ok := selPath(x.X)
		if !ok {
			return "", false
		}
		return p + "." + x.Sel.Name, true
	}
	return "", false
}

// fieldOf returns the guarded field id for an expression like recv.path (or an alias ident).
func (w *lockWalker) fieldOf(e ast.Expr) (int, bool) {
	p, ok := selPath(e)
	if !ok {
		return 0, false
	}
	if strings.HasPrefix(p, w.recv+".") {
		if id, ok := w.spec.fields[strings.TrimPrefix(p, w.recv+".")]; ok {
			return id, true
		}
	}
	if w.spec.aliases != nil {
		if _, ok := w.spec.aliases[p]; ok {
			return 1, true
		}
	}
	return 0, false
}

func (w *lockWalker) isMutex(e ast.Expr) bool {
	p, ok := selPath(e)
	if !ok {
		return false
	}
	for _, m := range w.spec.mutex {
		if p == w.recv+"."+m {
			return true
		}
	}
	return false
}

func endsWithReturn(b *ast.BlockStmt) bool {
	if len(b.List) == 0 {
		return false
	}
	_, ok := b.List[len(b.List)-1].(*ast.ReturnStmt)
	return ok
}

func (w *lockWalker) emit(ev string, deferred bool) {
	if deferred {
		w.deferred = append([]string{ev}, w.deferred...)
	} else {
		w.out = append(w.out, ev)
	}
}

func (w *lockWalker) walkStmts(list []ast.Stmt) {
	for _, s := range list {
		w.walkStmt(s)
	}
}

func (w *lockWalker) walkStmt(s ast.Stmt) {
	switch x := s.(type) {
	case *ast.DeferStmt:
		w.walkCall(x.Call, true)
	case *ast.GoStmt:
		if fl, ok := x.Call.Fun.(*ast.FuncLit); ok {
			sub := &lockWalker{spec: w.spec, recv: w.recv, funcs: w.funcs, roFuncs: w.roFuncs, depth: w.depth}
			sub.walkStmts(fl.Body.List)
			w.spawned = append(w.spawned, append(sub.out, sub.deferred...))
		}
	case *ast.IfStmt:
		if x.Init != nil {
			w.walkStmt(x.Init)
		}
		w.walkExpr(x.Cond)
		if endsWithReturn(x.Body) {
			// early exit: a path of its own = what ran so far + the branch + the deferred calls pending
			sub := &lockWalker{spec: w.spec, recv: w.recv, funcs: w.funcs, roFuncs: w.roFuncs, depth: w.depth}
			sub.walkStmts(x.Body.List)
			path := append(append([]string{}, w.out...), sub.out...)
			path = append(path, sub.deferred...)
			path = append(path, w.deferred...)
			w.exits = append(w.exits, path)
			for _, e := range sub.exits {
				w.exits = append(w.exits, append(append([]string{}, w.out...), e...))
			}
		} else {
			w.walkStmts(x.Body.List)
		}
		if x.Else != nil {
			w.walkStmt(x.Else)
		}
	case *ast.BlockStmt:
		w.walkStmts(x.List)
	case *ast.ForStmt:
		w.walkStmts(x.Body.List)
	case *ast.RangeStmt:
		w.walkExpr(x.X)
		w.walkStmts(x.Body.List)
	case *ast.AssignStmt:
		for _, r := range x.Rhs {
			w.walkExpr(r)
		}
		for _, l := range x.Lhs {
			if _, isSel := l.(*ast.SelectorExpr); !isSel {
				continue // a local variable (possibly an alias being bound), not the field
			}
			if id, ok := w.fieldOf(l); ok {
				w.emit(fmt.Sprintf(".write %d", id), false)
			}
		}
	case *ast.ExprStmt:
		w.walkExpr(x.X)
	case *ast.ReturnStmt:
		for _, r := range x.Results {
			w.walkExpr(r)
		}
	case *ast.SwitchStmt:
		if x.Body != nil {
			for _, c := range x.Body.List {
				if cc, ok := c.(*ast.CaseClause); ok {
					w.walkStmts(cc.Body)
				}
			}
		}
	case *ast.SelectStmt, *ast.DeclStmt, *ast.IncDecStmt:
	}
}

func (w *lockWalker) walkExpr(e ast.Expr) {
	if e == nil {
		return
	}
	switch x := e.(type) {
	case *ast.CallExpr:
		w.walkCall(x, false)
	case *ast.SelectorExpr:
		if id, ok := w.fieldOf(x); ok && (id == 0 || id == 4) { // flags are read by value
			w.emit(fmt.Sprintf(".read %d", id), false)
		}
	case *ast.BinaryExpr:
		w.walkExpr(x.X)
		w.walkExpr(x.Y)
	case *ast.UnaryExpr:
		w.walkExpr(x.X)
	case *ast.ParenExpr:
		w.walkExpr(x.X)
	case *ast.TypeAssertExpr: // sc.idx.(*T): reads the interface value fixed at construction, not its contents
	case *ast.FuncLit:
		w.walkStmts(x.Body.List)
	case *ast.CompositeLit:
		for _, el := range x.Elts {
			w.walkExpr(el)
		}
	}
}

func (w *lockWalker) walkCall(c *ast.CallExpr, deferred bool) {
	if sel, ok := c.Fun.(*ast.SelectorExpr); ok {
		name := sel.Sel.Name
		if w.isMutex(sel.X) {
			switch name {
			case "Lock":
				w.emit(".lock", deferred)
			case "RLock":
				w.emit(".rlock", deferred)
			case "Unlock":
				w.emit(".unlock", deferred)
			case "RUnlock":
				w.emit(".runlock", deferred)
			}
			return
		}
		// method call on a guarded field: content access
		if id, ok := w.fieldOf(sel.X); ok {
			if writeMethods[name] {
				w.emit(fmt.Sprintf(".write %d", id), deferred)
			} else {
				w.emit(fmt.Sprintf(".read %d", id), deferred)
			}
		}
		// same-receiver helper (b.helper(...), b.ronly.helper(...)): inline
		if p, ok := selPath(sel.X); ok && w.depth < 3 {
			var callee *ast.FuncDecl
			if p == w.recv {
				callee = w.funcs[name]
			} else if p == w.recv+".ronly" {
				callee = w.roFuncs[name]
			}
			if callee != nil && callee.Body != nil {
				for _, a := range c.Args {
					w.walkExpr(a)
				}
				sub := &lockWalker{spec: w.spec, funcs: w.funcs, roFuncs: w.roFuncs, depth: w.depth + 1}
				sub.recv = callee.Recv.List[0].Names[0].Name
				if p == w.recv+".ronly" {
					sub.spec = lockSpecs[0]
				}
				sub.walkStmts(callee.Body.List)
				evs := append(sub.out, sub.deferred...)
				for _, sp := range sub.spawned {
					evs = append(evs, sp...)
				}
				for _, ev := range evs {
					w.emit(ev, deferred)
				}
				return
			}
		}
	}
	// arguments: guarded fields handed to package-level helpers (store.Has(b.idx, …), util.LdWrite(b.dataWriter, …))
	fn, _ := selPath(c.Fun)
	for _, a := range c.Args {
		if id, ok := w.fieldOf(a); ok {
			if strings.HasSuffix(fn, "LdWrite") || strings.HasSuffix(fn, "Resume") {
				w.emit(fmt.Sprintf(".write %d", id), deferred)
			} else {
				w.emit(fmt.Sprintf(".read %d", id), deferred)
			}
		} else {
			w.walkExpr(a)
		}
	}
	if sel, ok := c.Fun.(*ast.SelectorExpr); ok {
		if _, isField := w.fieldOf(sel.X); !isField {
			w.walkExpr(sel.X)
		}
	}
}

func methodsOf(f *ast.File, typ string) map[string]*ast.FuncDecl {
	m := map[string]*ast.FuncDecl{}
	for _, d := range f.Decls {
		fd, ok := d.(*ast.FuncDecl)
		if !ok || fd.Recv == nil || len(fd.Recv.List) != 1 {
			continue
		}
		t := fd.Recv.List[0].Type
		if st, ok := t.(*ast.StarExpr); ok {
			t = st.X
		}
		if id, ok := t.(*ast.Ident); ok && id.Name == typ && len(fd.Recv.List[0].Names) == 1 {
			m[fd.Name.Name] = fd
		}
	}
	return m
}

// lockTable renders `def lockTable : List (String × List Ev)`.
func lockTable(get func(string) *ast.File) string {
	var b strings.Builder
	b.WriteString("/-- (type.method, events) for every public method of the concurrent types, in source order -/\n")
	b.WriteString("def lockTable : List (String × List Car.Locks.Ev) := [\n")
	ro := methodsOf(get("v2/blockstore/readonly.go"), "ReadOnly")
	first := true
	for _, sp := range lockSpecs {
		funcs := methodsOf(get(sp.rel), sp.typ)
		for _, mname := range sp.methods {
			fd := funcs[mname]
			if fd == nil || fd.Body == nil {
				continue
			}
			w := &lockWalker{spec: sp, recv: fd.Recv.List[0].Names[0].Name, funcs: funcs, roFuncs: ro}
			w.walkStmts(fd.Body.List)
			evs := append(w.out, w.deferred...)
			for _, spn := range w.spawned {
				evs = append(evs, spn...)
			}
			if !first {
				b.WriteString(",\n")
			}
			first = false
			fmt.Fprintf(&b, "  (%q, [%s])", sp.typ+"."+mname, strings.Join(evs, ", "))
			for k, ex := range w.exits {
				fmt.Fprintf(&b, ",\n  (%q, [%s])", fmt.Sprintf("%s.%s#exit%d", sp.typ, mname, k), strings.Join(ex, ", "))
			}
		}
	}
	b.WriteString("]\n\n")
	_ = token.NoPos
	return b.String()
}
