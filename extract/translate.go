package main

// A tiny Go -> Lean translator for straight-line uint64 code: the CARv2 header arithmetic of v2/car.go
// (NewHeader, WithIndexPadding, WithDataPadding, WithDataSize, HasIndex). Each function becomes a Lean
// definition over `Nat` with explicit wrap-around at 2^64 (`w`), in namespace Car.Facts.Tr; the property
// files prove that the hand-written model computes the same function. Anything outside the supported
// fragment (assignments to locals and to fields of the one struct, + - *, comparisons, return) is not
// guessed at: the function is emitted as `translated_<name> : Bool := false` and its definition is left
// out, which breaks the proof obligation that names it.

import (
	"bytes"
	"fmt"
	"go/ast"
	"go/constant"
	"go/token"
	"strings"
	"unicode"
)

type trCtx struct {
	consts  env             // package constants (evaluated)
	structT string          // the Go struct type that maps to Tr.Hdr
	fields  map[string]bool // its uint64 fields
	vars    map[string]string
	err     error
}

func lowerFirst(s string) string {
	r := []rune(s)
	r[0] = unicode.ToLower(r[0])
	return string(r)
}

func (c *trCtx) fail(format string, a ...any) string {
	if c.err == nil {
		c.err = fmt.Errorf(format, a...)
	}
	return "0"
}

// expr translates a uint64- or bool-valued expression.
func (c *trCtx) expr(e ast.Expr) string {
	switch x := e.(type) {
	case *ast.ParenExpr:
		return "(" + c.expr(x.X) + ")"
	case *ast.BasicLit:
		if x.Kind == token.INT {
			v := constant.MakeFromLiteral(x.Value, token.INT, 0)
			return v.ExactString()
		}
		return c.fail("literal %s", x.Value)
	case *ast.Ident:
		if t, ok := c.vars[x.Name]; ok && t != c.structT {
			return x.Name
		}
		if v, ok := c.consts[x.Name]; ok && v.Kind() == constant.Int {
			return v.ExactString()
		}
		if _, ok := c.vars[x.Name]; ok {
			return x.Name
		}
		return c.fail("identifier %s", x.Name)
	case *ast.SelectorExpr:
		if id, ok := x.X.(*ast.Ident); ok && c.vars[id.Name] == c.structT && c.fields[x.Sel.Name] {
			return id.Name + "." + lowerFirst(x.Sel.Name)
		}
		return c.fail("selector %s", x.Sel.Name)
	case *ast.BinaryExpr:
		l, r := c.expr(x.X), c.expr(x.Y)
		switch x.Op {
		case token.ADD:
			return fmt.Sprintf("w (%s + %s)", l, r)
		case token.SUB:
			return fmt.Sprintf("w (%s + 2 ^ 64 - %s)", l, r)
		case token.MUL:
			return fmt.Sprintf("w (%s * %s)", l, r)
		case token.NEQ:
			return fmt.Sprintf("(%s != %s)", l, r)
		case token.EQL:
			return fmt.Sprintf("(%s == %s)", l, r)
		case token.LSS:
			return fmt.Sprintf("decide (%s < %s)", l, r)
		case token.GTR:
			return fmt.Sprintf("decide (%s > %s)", l, r)
		case token.LEQ:
			return fmt.Sprintf("decide (%s ≤ %s)", l, r)
		case token.GEQ:
			return fmt.Sprintf("decide (%s ≥ %s)", l, r)
		}
		return c.fail("operator %s", x.Op)
	case *ast.CallExpr:
		if id, ok := x.Fun.(*ast.Ident); ok && id.Name == "uint64" && len(x.Args) == 1 {
			return c.expr(x.Args[0])
		}
		return c.fail("call")
	}
	return c.fail("expression %T", e)
}

// compositeLit translates Header{Field: expr, ...} (keyed fields only; the others are zero).
func (c *trCtx) compositeLit(cl *ast.CompositeLit) string {
	if t, ok := cl.Type.(*ast.Ident); !ok || t.Name != c.structT {
		c.fail("composite literal type")
		return "{}"
	}
	var fs []string
	for _, el := range cl.Elts {
		kv, ok := el.(*ast.KeyValueExpr)
		if !ok {
			c.fail("positional composite literal")
			break
		}
		k, ok := kv.Key.(*ast.Ident)
		if !ok || !c.fields[k.Name] {
			c.fail("composite literal field")
			break
		}
		fs = append(fs, fmt.Sprintf("%s := %s", lowerFirst(k.Name), c.expr(kv.Value)))
	}
	return "{ " + strings.Join(fs, ", ") + " }"
}

func (c *trCtx) goType(e ast.Expr) (string, bool) {
	if id, ok := e.(*ast.Ident); ok {
		switch id.Name {
		case "uint64":
			return "Nat", true
		case "bool":
			return "Bool", true
		case c.structT:
			return "Hdr", true
		}
	}
	return "", false
}

// translateFunc returns the Lean definition of fd, or "" with c.err set.
func (c *trCtx) translateFunc(fd *ast.FuncDecl, lean string) string {
	c.vars = map[string]string{}
	c.err = nil
	var params []string
	addParam := func(name string, t ast.Expr) {
		lt, ok := c.goType(t)
		if !ok {
			c.fail("parameter type of %s", name)
			return
		}
		if lt == "Hdr" {
			c.vars[name] = c.structT
		} else {
			c.vars[name] = lt
		}
		params = append(params, fmt.Sprintf("(%s : %s)", name, lt))
	}
	if fd.Recv != nil {
		for _, f := range fd.Recv.List {
			for _, n := range f.Names {
				addParam(n.Name, f.Type)
			}
		}
	}
	for _, f := range fd.Type.Params.List {
		for _, n := range f.Names {
			addParam(n.Name, f.Type)
		}
	}
	if fd.Type.Results == nil || len(fd.Type.Results.List) != 1 {
		c.fail("result list")
		return ""
	}
	rt, ok := c.goType(fd.Type.Results.List[0].Type)
	if !ok {
		c.fail("result type")
		return ""
	}
	var b bytes.Buffer
	fmt.Fprintf(&b, "def %s %s : %s :=\n", lean, strings.Join(params, " "), rt)
	returned := false
	for _, st := range fd.Body.List {
		if returned {
			c.fail("statement after return")
			break
		}
		switch s := st.(type) {
		case *ast.ReturnStmt:
			if len(s.Results) != 1 {
				c.fail("return arity")
				break
			}
			if id, ok := s.Results[0].(*ast.Ident); ok && c.vars[id.Name] == c.structT {
				fmt.Fprintf(&b, "  %s\n", id.Name)
			} else if cl, ok := s.Results[0].(*ast.CompositeLit); ok {
				fmt.Fprintf(&b, "  (%s : Hdr)\n", c.compositeLit(cl))
			} else {
				fmt.Fprintf(&b, "  %s\n", c.expr(s.Results[0]))
			}
			returned = true
		case *ast.AssignStmt:
			if len(s.Lhs) != 1 || len(s.Rhs) != 1 {
				c.fail("multiple assignment")
				break
			}
			rhs := s.Rhs[0]
			switch s.Tok {
			case token.ADD_ASSIGN:
				rhs = &ast.BinaryExpr{X: s.Lhs[0], Op: token.ADD, Y: s.Rhs[0]}
			case token.SUB_ASSIGN:
				rhs = &ast.BinaryExpr{X: s.Lhs[0], Op: token.SUB, Y: s.Rhs[0]}
			case token.ASSIGN, token.DEFINE:
			default:
				c.fail("assignment operator %s", s.Tok)
			}
			switch l := s.Lhs[0].(type) {
			case *ast.Ident:
				if cl, ok := rhs.(*ast.CompositeLit); ok {
					fmt.Fprintf(&b, "  let %s : Hdr := %s\n", l.Name, c.compositeLit(cl))
					c.vars[l.Name] = c.structT
				} else {
					v := c.expr(rhs)
					fmt.Fprintf(&b, "  let %s : Nat := %s\n", l.Name, v)
					c.vars[l.Name] = "Nat"
				}
			case *ast.SelectorExpr:
				id, ok := l.X.(*ast.Ident)
				if !ok || c.vars[id.Name] != c.structT || !c.fields[l.Sel.Name] {
					c.fail("assignment target")
					break
				}
				fmt.Fprintf(&b, "  let %s : Hdr := { %s with %s := %s }\n", id.Name, id.Name, lowerFirst(l.Sel.Name), c.expr(rhs))
			default:
				c.fail("assignment target %T", l)
			}
		default:
			c.fail("statement %T", st)
		}
	}
	if !returned {
		c.fail("no return")
	}
	if c.err != nil {
		return ""
	}
	return b.String()
}

// translateHeaderArithmetic emits namespace Tr into b.
func translateHeaderArithmetic(f *ast.File, b *bytes.Buffer) {
	c := &trCtx{consts: env{}, structT: "Header", fields: map[string]bool{"DataOffset": true, "DataSize": true, "IndexOffset": true}}
	ast.Inspect(f, func(n ast.Node) bool {
		vs, ok := n.(*ast.ValueSpec)
		if !ok {
			return true
		}
		for i, nm := range vs.Names {
			if i < len(vs.Values) {
				if v := eval(vs.Values[i], c.consts); v != nil {
					c.consts[nm.Name] = v
				}
			}
		}
		return true
	})
	b.WriteString("/-! v2/car.go, translated statement by statement (extract/translate.go): uint64 arithmetic with explicit wrap-around. -/\n")
	b.WriteString("namespace Tr\n\nstructure Hdr where\n  dataOffset : Nat := 0\n  dataSize : Nat := 0\n  indexOffset : Nat := 0\n  deriving DecidableEq, Repr\n\n")
	b.WriteString("/-- uint64 wrap-around -/\ndef w (n : Nat) : Nat := n % 2 ^ 64\n\n")
	want := []struct{ recv, name, lean string }{
		{"", "NewHeader", "newHeader"},
		{"Header", "WithIndexPadding", "withIndexPadding"},
		{"Header", "WithDataPadding", "withDataPadding"},
		{"Header", "WithDataSize", "withDataSize"},
		{"Header", "HasIndex", "hasIndex"},
	}
	for _, wnt := range want {
		var fd *ast.FuncDecl
		for _, d := range f.Decls {
			g, ok := d.(*ast.FuncDecl)
			if !ok || g.Name.Name != wnt.name || g.Body == nil {
				continue
			}
			recv := ""
			if g.Recv != nil && len(g.Recv.List) == 1 {
				if id, ok := g.Recv.List[0].Type.(*ast.Ident); ok {
					recv = id.Name
				} else {
					recv = "?"
				}
			}
			if recv == wnt.recv {
				fd = g
			}
		}
		if fd == nil {
			fmt.Fprintf(b, "/-- v2/car.go %s: NOT FOUND -/\ndef translated_%s : Bool := false\n\n", wnt.name, wnt.lean)
			continue
		}
		def := c.translateFunc(fd, wnt.lean)
		if def == "" {
			fmt.Fprintf(b, "/-- v2/car.go %s: outside the translated fragment (%v) -/\ndef translated_%s : Bool := false\n\n", wnt.name, c.err, wnt.lean)
			continue
		}
		fmt.Fprintf(b, "/-- v2/car.go %s -/\n%s\ndef translated_%s : Bool := true\n\n", wnt.name, def, wnt.lean)
	}
	b.WriteString("end Tr\n\n")
}
